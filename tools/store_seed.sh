#!/bin/bash
# store_seed.sh <prop> <k> <change-dir> [confirm-log] : copy a confirmed seeded change into /verif/seeded/<prop>-<k>/
P="$1"; K="$2"; CH="$3"; LOG="$4"
D=/verif/seeded/$P-$K; mkdir -p "$D"
cp "$CH/patch.diff" "$D/patch.diff"; cp "$CH/demo.diff" "$D/demo.diff"
[ -f "$CH/README.md" ] && cp "$CH/README.md" "$D/agent_README.md"
[ -n "$LOG" ] && [ -f "$LOG" ] && cp "$LOG" "$D/confirm.log"
ls "$D"
