#!/usr/bin/env python3
"""Print the prompt given to an independent sub-agent that seeds a property-breaking change.
Only the property text and the scratch worktree path are given (nothing from /verif)."""
import json, sys
pid = sys.argv[1]
wt = sys.argv[2] if len(sys.argv) > 2 else f"/tmp/wt/{pid}"
for l in open('/verif/properties.jsonl'):
    p = json.loads(l)
    if p['id'] == pid:
        break
else:
    sys.exit("no such property")
print(f"""You are working on the Rust repository FuelLabs/fuel-core (full node for the Fuel v2 blockchain), in a scratch git worktree at {wt}. The sandbox is OFFLINE: always pass --offline to cargo, nothing can be downloaded. Use the default (stable) toolchain. Keep ALL build output inside the worktree: export CARGO_TARGET_DIR={wt}/target for every cargo command. Do not read, write or reference /repo or /verif; do not commit anything. Builds are slow (first build of a crate's tests can take 10+ minutes): only build/test the specific packages you touch (cargo test --offline -p <package> ...), never the whole workspace.

Here is a semantic property of fuel-core that currently holds:

  Title: {p['title']}
  Statement: {p['statement']}
  Quantifier: {p['quantifier']['text']}
  Relevant files: {', '.join(p['anchors']['files'])}

YOUR TASK: produce up to TWO independent, realistic changes to the NON-TEST source code of fuel-core, each of which BREAKS this property while the code still compiles and the EXISTING tests of the package(s) you touched still pass. Think of regressions a refactor, a "simplification", an optimisation or a merge could plausibly introduce: a dropped or weakened check, a moved statement (e.g. state updated before instead of after a fallible step), an off-by-one bound, a missing branch/arm for one variant, a write added in a second place, a wrong variable of the same type, an error swallowed, a cache not invalidated, etc. The breakage must need something SPECIFIC to manifest — a particular interleaving, a crash/fault/error at a particular point, a multi-step sequence of operations, an unusual input, or two cooperating sites that each look fine alone — not something ordinary use (or the existing tests) would expose at once. Prefer small changes (a few lines) in the files listed above or the code they call. The two changes should break the property in different ways / at different sites.

For EACH change k (k = 1, 2) deliver, in {wt}/_out/change<k>/ :
  - patch.diff : unified diff (git diff format, paths relative to the repository root, applicable with `git apply`) containing ONLY the source change (no tests).
  - demo.diff  : unified diff (same format) that adds a demonstration: a new test (prefer a new #[test]/#[tokio::test] function appended to an existing tests module or a new test file in the touched package) that FAILS with patch.diff applied and PASSES on the original code.
  - README.md  : which clause of the property it breaks, what it needs in order to manifest, the exact commands you ran (with the cargo test filter for the demo) and their observed results: (a) original code + demo: demo passes; (b) patched code + demo: demo fails; (c) patched code: the pre-existing tests of the touched package(s) still pass (give the pass/fail counts).
You must actually run (a), (b) and (c) and report truthfully; if a pre-existing test fails with your change, pick a different change. When finished, leave the worktree with NO change applied (git checkout -- . ; remove untracked test files you added; keep _out/ and keep target/). Your final message should be a short summary of the two changes (files/functions touched, what breaks, how the demo triggers it, and test results).""")
