#!/bin/bash
# run every registered quick check once and summarise
cd /verif
for f in rules/C*.py; do id=$(basename $f .py); out=$(bin/vcheck $id "$@" 2>&1); rc=$?; echo "$id rc=$rc $(echo "$out" | grep '^==' | cut -c1-110)"; [ $rc != 0 ] && echo "$out" | grep -E "FAIL|VIOLATION" | head -5 | cut -c1-250; done
