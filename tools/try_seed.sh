#!/bin/bash
# try_seed.sh <patch.diff> <Cxx> [Cyy ...] : apply a seeded change to /repo, run the checks, undo.
P="$1"; shift
cd /repo || exit 2
if ! git diff --quiet; then echo "/repo has uncommitted changes"; exit 2; fi
git apply "$P" || { echo "patch does not apply to /repo"; exit 2; }
for id in "$@"; do
  /verif/bin/vcheck "$id" --no-evidence 2>&1 | grep -E "^==|FAIL|VIOLATION|ERROR" | cut -c1-260
done
git checkout -- .
