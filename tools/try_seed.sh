#!/bin/bash
# try_seed.sh <patch.diff> <Cxx> [Cyy ...] : apply a seeded change to a scratch worktree of /repo
# (HEAD + the uncommitted working-tree changes of /repo), run the checks against it, undo.
# /repo itself is not touched, so this can run while /repo is being built or tested.
P="$1"; shift
WT=${SEED_WT:-/tmp/wt/seedrepo}
TAG=${SEED_TAG:-seed}
if [ ! -d "$WT" ]; then git -C /repo worktree add -q --detach "$WT" HEAD || exit 2; fi
cd "$WT" || exit 2
git checkout -q --detach "$(git -C /repo rev-parse HEAD)" 2>/dev/null
git checkout -q -- . ; git clean -fdq
git -C /repo diff | git apply 2>/dev/null
git apply "$P" || { echo "patch does not apply"; git checkout -q -- .; exit 2; }
for id in "$@"; do
  VERIF_REPO="$WT" VERIF_FACTS_TAG=$TAG /verif/bin/vcheck "$id" --no-evidence 2>&1 | grep -E "^==|FAIL|VIOLATION|ERROR" | cut -c1-260
done
git checkout -q -- . ; git clean -fdq
