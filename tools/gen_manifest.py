#!/usr/bin/env python3
"""Regenerate MANIFEST.json from the rule files present under rules/ (one per claimed property)
and the not-applicable table below. Run after adding/removing a rules/Cxx.py."""
import importlib.util, json, os, sys
VERIF = os.path.dirname(os.path.dirname(os.path.abspath(__file__)))

NOT_APPLICABLE = {
    "C07": "WASM executor code exists only under feature wasm-executor, which the only MIR-exposing toolchain here cannot type-check (no wasm32 std); the property is a differential-execution relation between two compiled artefacts, not a shape of the source.",
    "C22": "ordering / exactly-once relation over message histories of a hand-written stream state machine and channel scheduling; its only shape-level facts (exhaustive matches) are already compiler-enforced.",
    "C25": "safety over interleavings of several processes, Redis nodes and Lua scripts with crashes and data loss; no Lua front end is available and the Rust side alone is not a useful necessary fragment.",
    "C28": "pure value-level state machine over u32 height ranges; correctness is arithmetic on runtime values.",
    "C33": "round-trip equality over histories with registry eviction and timestamps; no clause is visible in the shape of the code beyond what the type system already enforces.",
    "C38": "counting logic over runtime collections (skip/take counters); nothing but value arithmetic.",
}
PENDING = "rules not built yet (planned decision in DESIGN.md section 7); not claimed until the check exists"

def load(pid):
    path = os.path.join(VERIF, "rules", f"{pid}.py")
    spec = importlib.util.spec_from_file_location(f"rules_{pid}", path)
    mod = importlib.util.module_from_spec(spec)
    sys.path.insert(0, os.path.join(VERIF, "engine"))
    spec.loader.exec_module(mod)
    return mod

def main():
    props = [json.loads(l) for l in open(os.path.join(VERIF, "properties.jsonl"))]
    checks, na, served = [], [], []
    for p in props:
        pid = p["id"]
        m = load(pid) if os.path.exists(os.path.join(VERIF, "rules", f"{pid}.py")) else None
        if m is not None and getattr(m, "CLAIMED", True):
            level = getattr(m, "LEVEL", "other")
            text = " ".join(getattr(m, "EXPLANATION", "").split())
            nd = " ".join(getattr(m, "NOT_DECIDED", "").split())
            checks.append({
                "property_id": pid,
                "quick_cmd": f"bin/vcheck {pid} --tier quick",
                "thorough_cmd": f"bin/vcheck {pid} --tier thorough",
                "evidence_file": f"/verif/evidence/{pid}.json",
                "replay_cmd_template": "bin/vcheck --replay {path}",
                "engine": "static-rules",
                "level_claimed": {
                    "category": level,
                    "text": text[:4000] + " NOT DECIDED: " + nd,
                    "design_ref": f"DESIGN.md section 7, {pid}",
                },
                "level_note": "trusted base: rustc nightly front end + MIR builder, engine/driver (facts extractor), engine/core.py + engine/rules.py, the reviewed instance table rules/%s.py; decides structural necessary conditions for all paths of the analysed bodies, not the behavioural statement" % pid,
                "technique": getattr(m, "TECHNIQUE", "static analysis: custom MIR-level rules (dominance / must-pass-through / who-may-call / provenance) over facts extracted by a rustc_private driver"),
            })
            served.append(pid)
        elif pid in NOT_APPLICABLE:
            na.append({"property_id": pid, "reason": NOT_APPLICABLE[pid]})
        else:
            na.append({"property_id": pid, "reason": PENDING})
    man = {
        "version": 1,
        "setup_cmd": "bash engine/setup.sh",
        "hooks": {
            "guard": "fuellabs_fuel_core_verif",
            "enable": "no hooks: the analysis reads the unmodified program (facts extracted by a compiler driver injected through RUSTC_WORKSPACE_WRAPPER)",
            "baseline_off_cmd": "cd /repo && cargo nextest run --workspace --no-fail-fast --offline",
            "source_commits": [],
            "add_only": True,
        },
        "engines": [
            {"name": "static-rules", "path": "engine/", "serves_properties": served,
             "kind_free_text": "rustc_private MIR facts extractor (engine/driver) + Python rule engine (engine/core.py, engine/rules.py) + per-property instance tables (rules/Cxx.py)"},
        ],
        "checks": checks,
        "notes": "All checks are static: they type-check /repo's working tree with the nightly front end and evaluate rules on the extracted MIR facts; nothing executes fuel-core code. Known findings: known_findings.jsonl.",
        "not_applicable": na,
    }
    json.dump(man, open(os.path.join(VERIF, "MANIFEST.json"), "w"), indent=1)
    print(f"claimed {len(checks)}  not_applicable {len(na)}")

main()
