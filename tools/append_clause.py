#!/usr/bin/env python3
"""append_clause.py rules/Cxx.py <snippet-file>: insert the (4-space indented) snippet at the end of check(ctx),
i.e. before the next top-level definition that follows `def check`."""
import re, sys
p, snip = sys.argv[1], open(sys.argv[2]).read().rstrip("\n") + "\n"
s = open(p).read()
i = s.index("\ndef check(ctx)")
m = re.search(r"\n(?=(def |class |[A-Z_]+ = ))", s[i + 1:])
j = i + 1 + m.start() if m else len(s)
head = s[:j].rstrip("\n") + "\n\n" + snip
open(p, "w").write(head + ("\n" + s[j:] if m else ""))
