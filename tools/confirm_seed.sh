#!/bin/bash
# confirm_seed.sh <worktree> <change-dir> <package> [extra cargo test args...]
# Confirms a seeded change in its scratch worktree: (a) original+demo passes, (b) patch+demo
# fails, (c) patch alone: existing tests of the package pass. Prints a summary; exit 0 if all hold.
WT="$1"; CH="$2"; PKG="$3"; shift 3
export CARGO_TARGET_DIR="$WT/target" CARGO_NET_OFFLINE=true
cd "$WT" || exit 2
git checkout -q -- . ; git clean -fdq -e _out -e target
run() { cargo test --offline -p "$PKG" "$@" 2>&1 | grep -E "^test result|^error|FAILED|panicked|failed to" | head -20; }
echo "--- (a) original + demo"
git apply "$CH/demo.diff" || { echo "demo does not apply"; exit 2; }
A=$(run "$@"); echo "$A"
echo "--- (b) patch + demo"
git apply "$CH/patch.diff" || { echo "patch does not apply"; exit 2; }
B=$(run "$@"); echo "$B"
echo "--- (c) patch only"
git checkout -q -- . ; git clean -fdq -e _out -e target
git apply "$CH/patch.diff"
C=$(run "$@"); echo "$C"
git checkout -q -- . ; git clean -fdq -e _out -e target
ok=0
echo "$A" | grep -q "FAILED\|^error" && { echo "CONFIRM: (a) failed"; ok=1; }
echo "$B" | grep -q "FAILED" || { echo "CONFIRM: (b) did not fail"; ok=1; }
echo "$C" | grep -q "FAILED\|^error" && { echo "CONFIRM: (c) failed"; ok=1; }
[ $ok = 0 ] && echo "CONFIRMED"
exit $ok
