#!/bin/bash
# mutant.sh <repo-relative-file> <sed-expression> <Cxx...> : apply a one-line mutation in the scratch worktree, run checks, undo
FILE="$1"; EXPR="$2"; shift 2
WT=/tmp/wt/seedrepo
if [ ! -d "$WT" ]; then git -C /repo worktree add -q --detach "$WT" HEAD || exit 2; fi
cd "$WT" || exit 2
git checkout -q --detach "$(git -C /repo rev-parse HEAD)" 2>/dev/null
git checkout -q -- . ; git clean -fdq
git -C /repo diff | git apply 2>/dev/null
sed -i "$EXPR" "$FILE"
if git diff --quiet; then echo "mutation did not change anything"; exit 2; fi
git diff | grep '^[-+][^-+]' | head -6
for id in "$@"; do
  VERIF_REPO="$WT" VERIF_FACTS_TAG=seed /verif/bin/vcheck "$id" --no-evidence 2>&1 | grep -E "^==|FAIL|ERROR" | cut -c1-230
done
git checkout -q -- . ; git clean -fdq
