"""C24 — PoA produces consecutive, sealed, time-ordered blocks (DESIGN §7 C24)."""
from core import AnchorMissing, Origins, atom_match, place_fields

LEVEL = "other"
EXPLANATION = """
Structural necessary conditions of C24 in fuel_core_poa::service::MainTask, for all paths:
(1) produce_block / produce_predefined_block: the signer-availability and timestamp-monotonicity
rejects dominate block production; seal_block's ok-edge dominates the commit and the committed
block carries that seal; the writes of last_height / last_timestamp / last_block_created are
dominated by commit_result's ok-edge and take the produced height / time; (2) last_height and
last_timestamp are written only in the reviewed set; in update_last_block_values and in the
DB re-sync of try_to_produce_block the writes are guarded by `new > self.last_height`; the
reconciliation write is dominated by execute_and_commit's ok-edge and by the stale-height skip;
every height write that takes a block's height is accompanied by the timestamp write of the same
block; (3) every produce_block call passes next_height() which is last_height.succ();
(4) next_time returns the clock value only under `now > last/expected`, and increase_time uses a
checked addition whose overflow is an error exit.
"""
NOT_DECIDED = """Wall-clock behaviour of intervals; reconciliation with Redis (C25); numeric values."""

CR = ["fuel_core_poa"]
MT = "fuel_core_poa::service::MainTask"
PORTS = "fuel_core_poa::ports"
COMMIT = f"{PORTS}::BlockImporter::commit_result"
EXEC_COMMIT = f"{PORTS}::BlockImporter::execute_and_commit"
SEAL = f"{PORTS}::BlockSigner::seal_block"


def field_writes(body, adt, field):
    out = []
    for bb, j, s in body.stmts():
        if bb in body.live and s["k"] == "assign" and place_fields(s["pl"]) and place_fields(s["pl"])[-1] == (adt, field):
            out.append((bb, s))
    return out


def check(ctx):
    F = ctx.F
    # ---- 1. produce_block / produce_predefined_block ---------------------------------------------
    for fn, producer in (("produce_block", f"{MT}::signal_produce_block"),
                         ("produce_predefined_block", f"{PORTS}::BlockProducer::produce_predefined_block")):
        with ctx.clause(f"1.{fn}"):
            b = ctx.body_with(f"{MT}::{fn}", COMMIT)
            fu = F.unit(f"{MT}::{fn}")
            P_HEIGHT, P_TIME = (ctx.pspec(fu, 2), ctx.pspec(fu, 3)) if fn == "produce_block" else (None, None)   # (&mut self, height, block_time, ..)
            prod = ctx.one_call(b, producer)
            seal = ctx.one_call(b, SEAL)
            commit = ctx.one_call(b, COMMIT)
            avail = ctx.call_tests(b, f"{PORTS}::BlockSigner::is_available")
            ctx.guarded(f"1.{fn}-signer-available", b, [prod], avail, truth=True, detail="no production without a signing key")
            ctx.test_leads_to_error(f"1.{fn}-no-signer-rejects", b, avail, truth=False)
            if fn == "produce_block":
                mono = ctx.cmp_tests(b, "Gt", lhs=f"field:{MT}.last_timestamp", rhs=P_TIME)
                ctx.guarded("1.produce_block-time-monotone", b, [prod, commit], mono, truth=False,
                            detail="a block older than the last one is never produced or committed")
                ctx.test_leads_to_error("1.produce_block-time-regress-rejects", b, mono, truth=True)
                ctx.arg_origin("1.produce_block-height-passed", prod, 1, P_HEIGHT)
                ctx.arg_origin("1.produce_block-time-passed", prod, 2, P_TIME)
            ctx.after_ok(f"1.{fn}-produced-before-seal", prod, [seal])
            ctx.after_ok(f"1.{fn}-sealed-before-commit", seal, [commit], detail="each block is sealed before it is committed")
            ctx.arg_origin(f"1.{fn}-commit-carries-seal", commit, 1, f"call:{SEAL}", depth=3,
                           detail="the committed SealedBlock's consensus is the seal just produced")
            ctx.arg_origin(f"1.{fn}-commit-carries-produced-block", commit, 1, f"call:{producer}", depth=3)
            for fld in ("last_height", "last_timestamp", "last_block_created"):
                ws = field_writes(b, MT, fld)
                ctx.expect_sites(f"1.{fn}-{fld}-write", [f"{b.file}:{s.get('line')}" for _, s in ws], exactly=1, what=f"write of {fld} in {fn}")
                ctx.after_ok(f"1.{fn}-{fld}-after-commit-ok", commit, [bb for bb, _ in ws],
                             detail="a failed production or commit does not advance the height / time")
            o = Origins(b, 1)
            for fld, want in (("last_height", P_HEIGHT if fn == "produce_block" else "call:fuel_core_types::blockchain::header::BlockHeader::height"),
                              ("last_timestamp", P_TIME if fn == "produce_block" else "call:fuel_core_types::blockchain::header::BlockHeader::time")):
                for bb, s in field_writes(b, MT, fld):
                    at = o.atoms(s["rv"]["op"]) if s["rv"]["k"] == "use" else set()
                    ctx.add(f"1.{fn}-{fld}-value", "PROV", atom_match(at, want), f"{fld} becomes the produced block's value",
                            sites=[f"{b.file}:{s.get('line')}"], site_key=b.defq)

    # ---- 2. writers of last_height / last_timestamp ---------------------------------------------------
    with ctx.clause("2.writers"):
        allowed = [f"{MT}::new", f"{MT}::produce_block", f"{MT}::produce_predefined_block",
                   f"{MT}::update_last_block_values", f"{MT}::try_to_produce_block"]
        for fld in ("last_height", "last_timestamp"):
            ctx.only_field_writers(f"2.{fld}-writers", MT, fld, allowed, CR, kinds=("write", "refmut"), min_sites=4)
        # update_last_block_values: guarded by new > current
        ub = F.unit(f"{MT}::update_last_block_values").root
        gt = ctx.cmp_tests(ub, "Gt", lhs="call:fuel_core_poa::service::MainTask::extract_block_info", rhs=f"field:{MT}.last_height")
        ws = field_writes(ub, MT, "last_height") + field_writes(ub, MT, "last_timestamp")
        ctx.expect_sites("2.update-writes", [s.get("line") for _, s in ws], exactly=2, what="writes in update_last_block_values")
        ctx.guarded("2.update-only-forward", ub, [bb for bb, _ in ws], gt, truth=True, detail="the sync task never moves the height backwards")
        # try_to_produce_block
        tb = ctx.body_with(f"{MT}::try_to_produce_block", EXEC_COMMIT)
        ex = ctx.one_call(tb, EXEC_COMMIT)
        o = Origins(tb, 1)
        hws = field_writes(tb, MT, "last_height")
        resync = [(bb, s) for bb, s in hws if atom_match(o.atoms(s["rv"]["op"]), f"call:{PORTS}::BlockImporter::latest_block_height")]
        recon = [(bb, s) for bb, s in hws if (bb, s) not in resync]
        ctx.expect_sites("2.resync-writes", [s.get("line") for _, s in resync], exactly=2, what="DB re-sync writes of last_height")
        ctx.expect_sites("2.reconciliation-write", [s.get("line") for _, s in recon], exactly=1, what="reconciliation write of last_height")
        gt2 = ctx.cmp_tests(tb, "Gt", lhs=f"call:{PORTS}::BlockImporter::latest_block_height", rhs=f"field:{MT}.last_height")
        ctx.guarded("2.resync-only-forward", tb, [bb for bb, _ in resync], gt2, truth=True, detail="DB re-sync only raises last_height")
        ctx.after_ok("2.reconciliation-after-import-ok", ex, [bb for bb, _ in recon],
                     detail="a failed reconciliation import does not advance the height")
        le = ctx.cmp_tests(tb, "Le", lhs="call:fuel_core_types::blockchain::header::BlockHeader::height", rhs=f"field:{MT}.last_height")
        ctx.guarded("2.reconciliation-skips-stale", tb, [ex] + [bb for bb, _ in recon], le, truth=False,
                    detail="blocks at or below last_height are neither imported nor recorded")
        for bb, s in recon:
            ctx.add("2.reconciliation-height-value", "PROV", atom_match(o.atoms(s["rv"]["op"]), "call:fuel_core_types::blockchain::header::BlockHeader::height"),
                    "last_height becomes the imported block's height", sites=[f"{tb.file}:{s.get('line')}"], site_key=tb.defq)
        ctx.arg_origin("2.leader-state-for-next-height", ctx.one_call(tb, f"{PORTS}::BlockReconciliationReadPort::leader_state"), 1, f"call:{MT}::next_height")

    # ---- 2b. height writes carry their block's timestamp ---------------------------------------------------
    with ctx.clause("2b.height-time-pairing"):
        n = 0
        for u in [f"{MT}::produce_block", f"{MT}::produce_predefined_block", f"{MT}::update_last_block_values", f"{MT}::try_to_produce_block"]:
            for b in F.unit(u).bodies:
                o = Origins(b, 1)
                tws = {bb for bb, _ in field_writes(b, MT, "last_timestamp")}
                for bb, s in field_writes(b, MT, "last_height"):
                    if atom_match(o.atoms(s["rv"]["op"]), f"call:{PORTS}::BlockImporter::latest_block_height"):
                        continue  # reviewed exception: re-sync from the DB height only (no header at hand)
                    n += 1
                    ok = bb in tws or (b.path([bb], b.return_blocks() + [x for x in [bb] if False], cut_blocks=tws - {bb}) is None)
                    # loop bodies: also require that the loop head is not reached without the timestamp write
                    if ok and bb not in tws:
                        ok = _no_path_back(b, bb, tws)
                    ctx.add(f"2b.{u.split('::')[-1]}-height-with-time", "PAIR", ok,
                            "a last_height write taken from a block is accompanied by the last_timestamp write of the same block",
                            sites=[f"{b.file}:{s.get('line')}"], site_key=f"{b.defq}:{n}")
        ctx.add("2b.pair-count", "COUNT", n >= 4, f"height writes paired with a timestamp write: {n} (expected >= 4)", sites=[str(n)], site_key="count")

    # ---- 3. heights requested are next_height() -----------------------------------------------------------
    with ctx.clause("3.next-height"):
        sites = ctx.call_sites(f"{MT}::produce_block", CR)
        ctx.expect_sites("3.produce_block-sites", sites, at_least=3, what="produce_block call sites")
        for i, c in enumerate(sorted(sites, key=lambda c: (c.body.defq, c.bb))):
            ctx.arg_origin(f"3.height-is-next-{c.body.unit.split('::')[-1]}-{i}", c, 1, f"call:{MT}::next_height", depth=0)
        nb = F.unit(f"{MT}::next_height").root
        succ = nb.calls_to("fuel_types::numeric_types::BlockHeight::succ")
        ctx.expect_sites("3.next-height-succ", succ, exactly=1, what="BlockHeight::succ in next_height")
        for c in succ:
            ctx.arg_origin("3.succ-of-last-height", c, 0, f"field:{MT}.last_height")
        pb = ctx.body_with(f"{MT}::maybe_produce_predefined_block", f"{PORTS}::PredefinedBlocks::get_block")
        ctx.arg_origin("3.predefined-for-next-height", ctx.one_call(pb, f"{PORTS}::PredefinedBlocks::get_block"), 1, f"call:{MT}::next_height")

    # ---- 4. next_time / increase_time ----------------------------------------------------------------------
    with ctx.clause("4.time"):
        nt = F.unit(f"{MT}::next_time").root
        o = Origins(nt, 1)
        now_returns = []
        for bb, j, s in nt.stmts():
            if bb in nt.live and s["k"] == "assign" and s["rv"]["k"] == "agg" and s["rv"].get("variant") == "Ok":
                if atom_match(o.atoms(s["rv"]["ops"][0]), f"call:{PORTS}::GetTime::now"):
                    now_returns.append(bb)
        ctx.expect_sites("4.now-returns", now_returns, exactly=2, what="Ok(now) returns in next_time")
        gts = ctx.cmp_tests(nt, "Gt", lhs=f"call:{PORTS}::GetTime::now", rhs=[f"field:{MT}.last_timestamp", "call:fuel_core_poa::service::increase_time"])
        ctx.guarded("4.now-only-if-later", nt, now_returns, gts, truth=True,
                    detail="the clock value is used only when it is later than the last block / the expected time")
        it = F.unit("fuel_core_poa::service::increase_time").root
        add = ctx.one_call(it, "u64::checked_add")
        edges, _ = ctx.ok_edges(add, polarity="bad")
        errs = it.error_blocks()
        ctx.add("4.increase-time-overflow-rejects", "REJECT", bool(edges) and all(
            it.path([ctx._edge_target(it, e)], it.return_blocks(), cut_blocks=errs) is None for e in edges),
            "timestamp overflow is an error exit (no wrapping)", sites=[add.where()], site_key=it.defq)
        others = [c for c in it.calls if c.bb in it.live and c.name in ("wrapping_add", "saturating_add")]
        ctx.expect_sites("4.no-wrapping-time", others, exactly=0, what="wrapping/saturating time arithmetic in increase_time")


def _no_path_back(b, bb, tws):
    """from a height write, no path re-enters the same block (loop iteration) without a timestamp write"""
    for (tb, lab) in b.succs(bb):
        if b.path([tb], [bb], cut_blocks=tws) is not None:
            return False
    return True
