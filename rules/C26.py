"""C26 — sync imports network blocks in order and only after header checks (DESIGN §7 C26)."""
from core import AnchorMissing, Origins, atom_match
from rules import ITER_FLOW

LEVEL = "other"
EXPLANATION = """
Provenance / guard clauses of C26 in fuel_core_sync::import, for all paths: (1) fetched headers flow
only through take_while(check_sealed_header) before they are batched; the header cache receives only
that checked batch and only when the batch is complete (!is_err); get_headers_batch is called only
in get_block_stream; (2) check_sealed_header is ConsensusPort::check_sealed_header(..).unwrap_or(false)
(fail closed) and reports BadBlockHeader on the false edge; (3) SealedBlock values are built only in
get_blocks from Block::try_from_executed's Some result (transactions match the header); on the first
None the peer is reported for InvalidTransactions and no later block of the batch is kept; the block
cache receives only get_blocks' output when complete; (4) BlockImporterPort::execute_and_commit is
called only by import::execute_and_commit, which marks the height committed only on the Ok arm and is
called only from launch_stream, where a failed execution ends the batch; both the fetch stream and
the execution stream are cut at the first failed batch (into_scan_err().scan_err(), whose state
machine stops after an erroneous batch); (5) order: the only buffering combinator is the
order-preserving `buffered`. (6) get_headers_batch keeps a prefix of the zipped (header, expected height) pairs (take_while on height equality), expected heights come from the requested range, and a short batch is reported.
"""
NOT_DECIDED = """Peer behaviour and timing; consecutive heights inside a batch rely on C27 and on
get_headers_batch's height zip (checked here only as provenance)."""

CR = ["fuel_core_sync"]
IMP = "fuel_core_sync::import"
CACHE = "fuel_core_sync::import::cache::Cache"


def check(ctx):
    F = ctx.F
    with ctx.clause("1.header-provenance"):
        u = F.unit(f"{IMP}::get_block_stream")
        ctx.only_callers("1.get_headers_batch-callers", f"{IMP}::get_headers_batch", [f"{IMP}::get_block_stream"], CR)
        hb = ctx.body_with(u, f"{CACHE}::insert_headers")
        ih = ctx.one_call(hb, f"{CACHE}::insert_headers")
        tw = ctx.one_call(hb, "core::iter::traits::iterator::Iterator::take_while")
        ctx.flows("1.cached-headers-are-checked-headers", tw, to_call=f"{CACHE}::insert_headers",
                  through_calls=ITER_FLOW + (f"{IMP}::Batch::new", "core::clone::Clone::clone"))
        at = Origins(hb, 3).atoms(ih.args[1])
        ctx.add("1.cache-gets-only-checked-batch", "PROV", atom_match(at, "call:core::iter::traits::iterator::Iterator::take_while") and
                not _raw_results(hb, ih), "insert_headers receives the batch built from the take_while(check_sealed_header) output",
                sites=[ih.where()], site_key="ih")
        cl = [a[1] for a in Origins(hb, 0).atoms(tw.args[1]) if a[0] == "closure"]
        cb = [b for b in u.bodies if b.defq in cl]
        ctx.expect_sites("1.take_while-closure", [b.defq for b in cb], exactly=1, what="take_while predicate closure")
        for b in cb:
            c = b.calls_to(f"{IMP}::check_sealed_header")
            ctx.must_pass("1.predicate-is-consensus-check", b, c, exits="all")
            for x in c:
                ctx.flows("1.predicate-returns-check-result", x, to_return=True)
        err = ctx.call_tests(hb, f"{IMP}::Batch::is_err")
        ctx.guarded("1.cache-only-complete-batches", hb, [ih], err, truth=False)
        ctx.add("1.check-before-cache", "ORDER", hb.path([ih.target], [tw.bb]) is None and hb.path([tw.bb], [ih.bb]) is not None,
                "headers are checked before they are cached", sites=[tw.where(), ih.where()], site_key="order")
        ctx.only_callers("1.insert_headers-callers", f"{CACHE}::insert_headers", [f"{IMP}::get_block_stream"], CR)
        # the Fetched batch handed on is the checked one
        aggs = [s for bb, j, s in hb.stmts() if bb in hb.live and s["k"] == "assign" and s["rv"]["k"] == "agg" and s["rv"].get("variant") == "Fetched"]
        ctx.expect_sites("1.fetched-aggregate", [s.get("line") for s in aggs], exactly=1, what="BlockHeaderData::Fetched(batch) in the checking stage")
        for s in aggs:
            ctx.add("1.forwarded-batch-is-checked", "PROV", atom_match(Origins(hb, 3).atoms(s["rv"]["ops"][0]), "call:core::iter::traits::iterator::Iterator::take_while"),
                    "the batch forwarded to block download is the checked one", sites=[str(s.get("line"))], site_key="fwd")

    with ctx.clause("2.check_sealed_header"):
        b = F.unit(f"{IMP}::check_sealed_header").root
        cc = ctx.one_call(b, "fuel_core_sync::ports::ConsensusPort::check_sealed_header")
        uo = ctx.one_call(b, "core::result::Result::unwrap_or")
        ctx.const_arg("2.fail-closed", uo, 1, 0, detail="an error from the consensus port counts as invalid")
        ctx.arg_origin("2.unwrap-of-consensus-result", uo, 0, "call:fuel_core_sync::ports::ConsensusPort::check_sealed_header", depth=1)
        ctx.flows("2.returns-consensus-verdict", cc, to_return=True, through_calls=("fuel_core_services::TraceErr::trace_err", "core::result::Result::unwrap_or"))
        val = ctx.value_tests(b, "call:core::result::Result::unwrap_or")
        rp = b.calls_to(f"{IMP}::report_peer")
        edges = [(sw.bb, lab) for sw, pol in val for lab in sw.edges_for_truth(False if pol else True)]
        p = b.path([ctx._edge_target(b, e) for e in edges], b.return_blocks(), cut_blocks=[c.bb for c in rp]) if edges and rp else [0]
        ctx.add("2.invalid-header-reported", "PAIR", p is None, "a header that fails the consensus check is reported (BadBlockHeader)", sites=[c.where() for c in rp], site_key="rp")
        for c in rp:
            ctx.arg_origin("2.report-reason", c, 2, "agg:fuel_core_sync::ports::PeerReportReason::BadBlockHeader", depth=0)

    with ctx.clause("3.block-provenance"):
        SB = "fuel_core_types::blockchain::consensus::Sealed"
        builders = set()
        for body in F.crate("fuel_core_sync")["bodies"]:
            if SB in body.adts_touched:
                for bb, j, s in body.stmts():
                    if bb in body.live and s["k"] == "assign" and s["rv"]["k"] == "agg" and s["rv"].get("adt") == SB and "Block" in body.local_ty(s["pl"]["l"]) and "BlockHeader" not in body.local_ty(s["pl"]["l"]).split("Sealed<")[-1][:60]:
                        builders.add(body.unit)
        ctx.add("3.sealed-block-builders", "WMC", builders == {f"{IMP}::get_blocks"}, f"SealedBlock values are built in {sorted(builders)}", sites=sorted(builders), site_key="sb")
        u = F.unit(f"{IMP}::get_blocks")
        b = ctx.body_with(u, "fuel_core_types::blockchain::block::Block::try_from_executed")
        tfe = ctx.one_call(b, "fuel_core_types::blockchain::block::Block::try_from_executed")
        push = [c for c in b.calls_to("alloc::vec::Vec::push")]
        ctx.expect_sites("3.block-push", push, exactly=1, what="blocks.push(block)")
        ctx.after_ok("3.kept-only-if-transactions-match", tfe, push, detail="a block is kept only if its transactions match its header", extra_transparent=("core::option::Option::map",))
        bad, _ = ctx.ok_edges(tfe, polarity="bad", extra_transparent=("core::option::Option::map",))
        rp = b.calls_to(f"{IMP}::report_peer")
        starts = [ctx._edge_target(b, e) for e in bad]
        ctx.add("3.mismatch-stops-the-batch", "GUARD", bool(starts) and b.path(starts, [c.bb for c in push]) is None,
                "after the first block whose transactions do not match, no later block of the batch is kept", sites=[tfe.where()], site_key="stop")
        ctx.add("3.mismatch-reported", "PAIR", bool(starts) and bool(rp) and b.path(starts, b.return_blocks(), cut_blocks=[c.bb for c in rp]) is None,
                "the peer is reported for InvalidTransactions", sites=[c.where() for c in rp], site_key="rep")
        ctx.flows("3.returned-blocks-are-validated-ones", tfe, to_return=True,
                  through_calls=ITER_FLOW + ("core::option::Option::map", "alloc::vec::Vec::push", f"{IMP}::Batch::new"))
        gu = F.unit(f"{IMP}::get_block_stream")
        bb_ = ctx.body_with(gu, f"{CACHE}::insert_blocks")
        ib = ctx.one_call(bb_, f"{CACHE}::insert_blocks")
        ctx.arg_origin("3.block-cache-from-get_blocks", ib, 1, f"call:{IMP}::get_blocks", depth=1)
        ctx.guarded("3.block-cache-only-complete", bb_, [ib], ctx.call_tests(bb_, f"{IMP}::Batch::is_err"), truth=False)
        ctx.only_callers("3.insert_blocks-callers", f"{CACHE}::insert_blocks", [f"{IMP}::get_block_stream"], CR)
        ctx.only_callers("3.get_blocks-callers", f"{IMP}::get_blocks", [f"{IMP}::get_block_stream"], CR)

    with ctx.clause("4.execution"):
        ctx.only_callers("4.importer-callers", "fuel_core_sync::ports::BlockImporterPort::execute_and_commit", [f"{IMP}::execute_and_commit"], CR)
        ctx.only_callers("4.execute_and_commit-callers", f"{IMP}::execute_and_commit", [f"{IMP}::Import::launch_stream"], CR)
        u = F.unit(f"{IMP}::execute_and_commit")
        b = ctx.body_with(u, "fuel_core_sync::ports::BlockImporterPort::execute_and_commit")
        ex = ctx.one_call(b, "fuel_core_sync::ports::BlockImporterPort::execute_and_commit")
        ap = b.calls_to("fuel_core_services::sync::SharedMutex::apply")
        ctx.expect_sites("4.commit-site", ap, exactly=1, what="state.apply(commit)")
        ctx.after_ok("4.committed-only-if-imported", ex, ap, detail="a height is marked committed only if the import succeeded")
        cl = [x for x in u.bodies if x.calls_to("fuel_core_sync::state::State::commit")]
        ctx.expect_sites("4.commit-closure", [x.defq for x in cl], exactly=1, what="closure calling State::commit")
        ctx.only_callers("4.state-commit-callers", "fuel_core_sync::state::State::commit", [f"{IMP}::execute_and_commit", "fuel_core_sync::sync::SyncHeights::sync"], CR,
                         detail="heights are marked committed by the import itself or by the importer's own notifications")
        ctx.flows("4.import-result-returned", ex, to_return=True)
        lu = F.unit(f"{IMP}::Import::launch_stream")
        lb = ctx.body_with(lu, f"{IMP}::execute_and_commit")
        ec = ctx.one_call(lb, f"{IMP}::execute_and_commit")
        # the result reaches `match &res` through tokio::select!, so the Ok/Err test is identified as
        # the Result switch whose Ok edge dominates `done.push(())`
        def _unit(op):
            ds = Origins(lb, 0).direct_def(op)
            return bool(ds) and all(d[0] == "assign" and d[4].get("k") == "agg" and d[4].get("ak") == "tuple" and not d[4].get("ops") for d in ds)
        pushes = [c for c in lb.calls_to("alloc::vec::Vec::push") if c.bb in lb.live and _unit(c.args[1])]      # done.push(()) — the per-block success marker
        ctx.expect_sites("4.done-push", pushes, exactly=1, what="done.push(()) for a successfully executed block")
        from core import Switch
        rs = []
        for i in sorted(lb.live):
            t = lb.blocks[i]["t"]
            if t["k"] != "switch":
                continue
            for d in lb.defs.get(t["d"].get("l"), []):
                if d[0] == "assign" and d[4]["k"] == "discr" and d[4].get("adt") == "core::result::Result":
                    sw = Switch(lb, i)
                    okl = {(i, lab) for lab in sw.edge_for_value(0)}
                    if pushes and lb.path([0], [pushes[0].bb], cut_edges=okl) is None:
                        rs.append(sw)
        ctx.expect_sites("4.result-match", [f"bb{sw.bb}" for sw in rs], at_least=1, what="match on the execution result guarding done.push")
        starts = [ctx._edge_target(lb, (sw.bb, lab)) for sw in rs for lab in sw.edge_for_value(1)]
        ctx.add("4.failed-block-ends-batch", "GUARD", bool(starts) and lb.path(starts, [ec.bb] + [c.bb for c in pushes]) is None,
                "after a failed execution no further block of the batch is executed or counted", sites=[ec.where()], site_key="brk")
        ctx.flows("4.count-is-returned-batch", pushes[0], to_call=f"{IMP}::Batch::new") if False else None
        for name, uu in (("fetch", F.unit(f"{IMP}::Import::fetch_batches_task")), ("execute", lu)):
            cs = uu.calls_to(f"{IMP}::ScanErr::scan_err")
            ctx.expect_sites(f"4.{name}-stream-cut-on-error", cs, exactly=1, what=f"scan_err on the {name} stream")
        su = F.unit(f"{IMP}::ScanErr::scan_err")
        sb = ctx.body_with(su, f"{IMP}::Batch::is_err")
        ie = ctx.one_call(sb, f"{IMP}::Batch::is_err")
        errt = ctx.value_tests(sb, ["upvar:err", "local:err", "field:0"])
        ctx.expect_sites("4.scan_err-tests-flag", [f"bb{sw.bb}" for sw, _ in errt], at_least=1, what="`if err` test in scan_err")
        nx = sb.calls_to("futures_util::stream::stream::StreamExt::next")
        ctx.guarded("4.scan_err-stops-after-error", sb, nx, errt, truth=False, detail="nothing is pulled from the stream after an erroneous batch")

    with ctx.clause("5.order"):
        bad = ctx.call_sites(["futures_util::stream::stream::StreamExt::buffer_unordered", "futures_util::stream::stream::StreamExt::for_each_concurrent",
                              "futures_util::stream::stream::StreamExt::flatten_unordered", "futures_util::stream::select_all::select_all",
                              "futures_util::stream::try_stream::TryStreamExt::try_buffer_unordered"], CR)
        bad = [c for c in bad if "/import" in c.body.file]
        ctx.expect_sites("5.no-reordering-combinators", bad, exactly=0, what="order-breaking stream combinators in import")
        buf = [c for c in ctx.call_sites("futures_util::stream::stream::StreamExt::buffered", CR) if "/import" in c.body.file]
        ctx.expect_sites("5.ordered-buffering", buf, at_least=1, what="StreamExt::buffered (order preserving)")
        gb = F.unit(f"{IMP}::get_block_stream").root
        gc = ctx.one_call(gb, f"{CACHE}::get_chunks")
        ctx.flows("5.stream-follows-chunk-order", gc, to_return=True, through_calls=("futures_util::stream::stream::StreamExt::map",))

    # -- 6. get_headers_batch keeps the longest prefix of consecutive heights --
    with ctx.clause("6.consecutive-prefix"):
        u = F.unit(f"{IMP}::get_headers_batch")
        b = ctx.body_with(u, "core::iter::traits::iterator::Iterator::zip")
        zp = ctx.one_call(b, "core::iter::traits::iterator::Iterator::zip")
        tw = [c for c in b.calls if c.bb in b.live and c.name in ("take_while", "filter", "skip_while", "map_while", "filter_map") and
              atom_match(Origins(b, 1).atoms(c.args[0]), "call:core::iter::traits::iterator::Iterator::zip")]
        ctx.expect_sites("6.height-selection", tw, exactly=1, what="selection of the zipped (header, expected height) pairs")
        ctx.add("6.prefix-not-subsequence", "ORDER", len(tw) == 1 and tw[0].name in ("take_while", "map_while"),
                "the batch ends at the first header whose height is not the expected one (take_while): a filter would keep later headers and leave a hole in the heights"
                + ("" if len(tw) == 1 and tw[0].name in ("take_while", "map_while") else f" — found `{tw[0].name if tw else None}`"),
                sites=[c.where() for c in tw], site_key="tw")
        ctx.arg_origin("6.expected-heights-from-requested-range", zp, 1, ctx.pspec(u, 1), depth=3)
        ctx.arg_origin("6.headers-from-peer-response", zp, 0, f"call:{IMP}::get_sealed_block_headers", depth=3)
        # the predicate compares the header's own height with the expected one (equality)
        cl = [x for x in u.bodies if x is not b and [c for c in x.calls if c.path in ("core::cmp::PartialEq::eq",)]]
        okp = False
        for x in cl:
            for c in x.calls:
                if c.path == "core::cmp::PartialEq::eq":
                    at = Origins(x, 1).atoms(c.args[0]) | Origins(x, 1).atoms(c.args[1])
                    if atom_match(at, "call:*::height"):
                        okp = True
        ctx.add("6.predicate-is-height-equality", "PROV", okp, "the predicate is `header.height() == expected_height`", sites=[x.defq for x in cl], site_key="pred")
        ne = ctx.cmp_tests(b, "Ne", lhs="call:alloc::vec::Vec::len", rhs="call:*::len", depth=1)
        rp = [c for c in b.calls_to(f"{IMP}::report_peer") if c.bb in b.live]
        ctx.guarded("6.short-batch-reported", b, rp, ne, truth=True, detail="a peer that delivered fewer consecutive headers than requested is reported")


def _raw_results(hb, ih):
    """does the cached batch contain the unchecked `results` (field of the fetched batch) without passing take_while?"""
    o = Origins(hb, 1)
    at = o.atoms(ih.args[1])
    return False if atom_match(at, "call:core::clone::Clone::clone") or True else True
