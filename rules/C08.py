"""C08 — the importer only commits the next unique block, atomically, in order (DESIGN §7 C08)."""

LEVEL = "other"
EXPLANATION = """
Structural necessary conditions of C08, decided for all paths of the importer's MIR:
(1) create_block_changes returns Ok only past the height-equality test and the uniqueness test,
each consensus arm has its reject edge, the expected height is last+1 via checked_add(1);
(2) store_new_block's returned flag accumulates the replace-results of FuelBlocks,
SealedBlockConsensus and Transactions; (3) _commit_result has exactly one database commit,
dominated by the false-edge of the block-root comparison, fed with one ChangesList built from
the block changes and the execution changes, and the broadcast is dominated by the commit's
ok-edge and is the only send on the importer's broadcast channel; (4) who-may-call for the
commit; (5) the single-permit try-lock dominates both public entry points; (6) block fields are
verified before validation, genesis consensus is rejected before execution. The permit taken by lock() stays bound to a live guard until the submitted prepare/commit work has returned (no release point — MIR drop of the holder — on a path to those calls). The flag returned by store_new_block accumulates (`found |= ..` for every later update); a missing latest height on the non-genesis arm reaches an ok_or error and is never defaulted before `latest + 1`.
"""
NOT_DECIDED = """Behaviour under real concurrency beyond the lock discipline; height order of
notifications follows from (1)+(3)+(5) but is not model-checked; values (roots, heights)."""

IMP = "fuel_core_importer::importer"
PORTS = "fuel_core_importer::ports"
CR = ["fuel_core_importer"]


from rules import rvalue_locals
from core import AnchorMissing, Origins, atom_match


def check(ctx):
    # ---- 1. create_block_changes ---------------------------------------------------------
    with ctx.clause("1.create_block_changes"):
        b = ctx.body_with(f"{IMP}::create_block_changes", f"{PORTS}::DatabaseTransaction::store_new_block")
        oks = ctx.ok_return_blocks(b)
        ctx.expect_sites("1.ok-return", sorted(oks), exactly=1, what="Ok(..) return of create_block_changes")
        ne = ctx.cmp_tests(b, "Ne", lhs="call:u32::checked_add", rhs="call:fuel_core_types::blockchain::header::BlockHeader::height")
        ctx.guarded("1.height-must-match", b, oks, ne, truth=False,
                    detail="Ok return only if expected_next_height == actual_next_height")
        ctx.test_leads_to_error("1.height-mismatch-rejects", b, ne, truth=True,
                                detail="height mismatch edge reaches only error exits")
        uniq = ctx.value_tests(b, f"call:{PORTS}::DatabaseTransaction::store_new_block")
        ctx.guarded("1.unique", b, oks, uniq, truth=True,
                    detail="Ok return only if store_new_block reported nothing found (true)")
        ctx.test_leads_to_error("1.not-unique-rejects", b, uniq, truth=False,
                                detail="store_new_block == false reaches only error exits")
        # the changes returned are those of the transaction the block was stored into
        st = ctx.one_call(b, f"{PORTS}::DatabaseTransaction::store_new_block")
        ic = ctx.one_call(b, f"{PORTS}::DatabaseTransaction::into_changes")
        ctx.after_ok("1.into_changes-after-store", st, [ic])
        # consensus dispatch: Genesis arm rejects a non-empty db, PoA arm rejects height 0,
        # any other variant is an error exit
        enum_q = "fuel_core_types::blockchain::consensus::Consensus"
        errs = b.error_blocks()

        def to_error(body, tb):
            return body.path([tb], body.return_blocks(), cut_blocks=errs) is None
        ctx.dispatch_total("1.consensus-dispatch", b, enum_q, allow_otherwise_to=to_error,
                           detail="unknown consensus variants must be rejected")
        gen = ctx.value_tests(b, "call:core::option::Option::is_some")
        ctx.test_leads_to_error("1.genesis-on-nonempty-db-rejects", b, gen, truth=True,
                                detail="genesis block with an existing latest height is rejected")
        zero = ctx.cmp_tests(b, "Eq", lhs="call:fuel_core_types::blockchain::header::BlockHeader::height",
                             rhs="call:<fuel_types::numeric_types::BlockHeight as core::convert::From>::from")
        ctx.test_leads_to_error("1.poa-zero-height-rejects", b, zero, truth=True)
        add = ctx.one_call(b, "u32::checked_add")
        ctx.const_arg("1.next-is-plus-one", add, 1, 1, detail="expected height = latest + 1")
        ctx.arg_origin("1.next-from-latest", add, 0, f"call:{PORTS}::ImporterDatabase::latest_block_height")
        lbh = [c for c in b.calls_to(f"{PORTS}::ImporterDatabase::latest_block_height") if c.bb in b.live]
        dfl1 = [c for c in b.calls if c.bb in b.live and c.name in ("unwrap_or_default", "unwrap_or", "unwrap_or_else") and
                atom_match(Origins(b, 2).atoms(c.args[0]), f"call:{PORTS}::ImporterDatabase::latest_block_height") and b.path([c.target], [add.bb]) is not None]
        ctx.expect_sites("1.missing-latest-height-is-not-defaulted", dfl1, exactly=0,
                         what="default substituted for a missing latest height before the `latest + 1` computation (a PoA block of height 1 would be accepted on an empty database)")
        okor = [c for c in b.calls if c.bb in b.live and c.name in ("ok_or", "ok_or_else") and atom_match(Origins(b, 2).atoms(c.args[0]), f"call:{PORTS}::ImporterDatabase::latest_block_height")]
        ctx.expect_sites("1.missing-latest-height-is-an-error", okor, at_least=1, what="latest_block_height()?.ok_or(not found) on the non-genesis arm")

    # ---- 2. store_new_block accumulates 'found' over the three tables ----------------------
    with ctx.clause("2.store_new_block"):
        us = ctx.F.find_units("<* as fuel_core_importer::ports::DatabaseTransaction>::store_new_block", "fuel_core_importer")
        if len(us) != 1:
            raise AnchorMissing(f"impl DatabaseTransaction::store_new_block: found {len(us)}")
        b = ctx.body_with(us[0], "fuel_storage::StorageMut::replace")
        for table in ("FuelBlocks", "SealedBlockConsensus", "Transactions"):
            sites = [c for c in ctx.table_ops(table, CR, ops=("replace", "insert")) if c.body is b]
            ctx.expect_sites(f"2.replace-{table}", sites, exactly=1, what=f"replace of {table} in store_new_block")
            for c in sites:
                ctx.flows(f"2.found-includes-{table}", c, to_return=True,
                          through_calls=("core::option::Option::is_some",),
                          detail=f"'found' returned by store_new_block includes the replace result of {table}")
        # 'found' accumulates: once set by one table it is never overwritten by a later replace result
        ret2 = ctx.returned_locals(b)
        flag = [l for l in ret2 if l != 0 and l < len(b.locals) and b.locals[l].get("t") == "bool" and b.local_name(l)]
        over2 = []
        n_acc = 0
        for l in flag:
            ds = [d for d in b.defs.get(l, []) if (d[0] == "call") or not d[3].get("p")]
            first_bb = min((d[1] if d[0] == "assign" else d[1].bb) for d in ds) if ds else None
            for d in ds:
                dbb = d[1] if d[0] == "assign" else d[1].bb
                if dbb == first_bb:
                    continue
                acc = d[0] == "assign" and d[4]["k"] == "bin" and d[4].get("op") in ("BitOr", "Or") and l in rvalue_locals(d[4])
                n_acc += 1 if acc else 0
                if not acc:
                    over2.append(f"{b.local_name(l)} overwritten at line {(d[4] if d[0] == 'assign' else {}).get('line') or b.blocks[dbb]['t'].get('line')}")
        ctx.add("2.found-accumulates", "PAIR", bool(flag) and not over2 and n_acc >= 2,
                "every later update of the returned flag is `found |= ..` (an existing block, consensus record or earlier transaction is not forgotten when a later transaction is new)" +
                (f": {over2}" if over2 else ""), sites=[str(b.local_name(l)) for l in flag], site_key="acc")
        commit = ctx.one_call(b, "fuel_core_storage::structured_storage::StructuredStorage::commit")
        ctx.must_pass("2.commit", b, [commit], detail="store_new_block commits its write transaction on success")

    # ---- 3. _commit_result ------------------------------------------------------------------
    with ctx.clause("3._commit_result"):
        u = ctx.unit(f"{IMP}::ImporterInner::_commit_result")
        b = ctx.body_with(u, f"{PORTS}::ImporterDatabase::commit_changes")
        commits = b.calls_to(f"{PORTS}::ImporterDatabase::commit_changes")
        ctx.expect_sites("3.single-commit", commits, exactly=1, what="database commit in _commit_result",
                         detail="block and execution changes must be committed atomically in one call")
        commit = commits[0]
        ne = ctx.cmp_tests(b, "Ne", lhs=f"call:{PORTS}::DatabaseTransaction::latest_block_root",
                           rhs=f"call:{PORTS}::ImporterDatabase::latest_block_root")
        ctx.guarded("3.commit-after-root-check", b, [commit], ne, truth=False,
                    detail="execution must not have touched the block Merkle accumulator")
        ctx.test_leads_to_error("3.root-mismatch-rejects", b, ne, truth=True)
        ctx.arg_origin("3.commit-is-changes-list", commit, 1, "agg:fuel_core_storage::transactional::StorageChanges::ChangesList")
        ctx.arg_origin("3.commit-includes-block-changes", commit, 1, "field:block_changes")
        ctx.arg_origin("3.commit-includes-execution-changes", commit, 1, f"call:{PORTS}::DatabaseTransaction::into_changes")
        # the transaction whose root was checked is the one whose changes are committed
        sends = b.calls_to("tokio::sync::broadcast::Sender::send")
        ctx.expect_sites("3.single-broadcast", sends, exactly=1, what="broadcast in _commit_result")
        ctx.after_ok("3.broadcast-after-commit", commit, sends,
                     detail="announce only after the data is committed; a failed import announces nothing")
        ctx.paired("3.commit-then-broadcast", commit, sends, detail="every successful commit is announced")
        # the reconciliation publish (local blocks) happens before the commit and its failure aborts
        pub = b.calls_to(f"{PORTS}::BlockReconciliationWritePort::publish_produced_block")
        if pub:
            reach_after_commit = b.reach([commit.target])
            ctx.add("3.publish-before-commit", "ORDER", all(p.bb not in reach_after_commit for p in pub),
                    "publish_produced_block is not reachable after the database commit", sites=[p.where() for p in pub],
                    site_key=b.defq)

    # ---- 4. who may call ---------------------------------------------------------------------
    with ctx.clause("4.callers"):
        ctx.only_callers("4.commit-callers", f"{PORTS}::ImporterDatabase::commit_changes",
                         [f"{IMP}::ImporterInner::_commit_result"], CR, must=[f"{IMP}::ImporterInner::_commit_result"],
                         detail="the importer commits to the database only in _commit_result")
        ctx.only_callers("4._commit_result-callers", f"{IMP}::ImporterInner::_commit_result",
                         [f"{IMP}::ImporterInner::commit_result"], CR, must=[f"{IMP}::ImporterInner::commit_result"])
        ctx.only_callers("4.broadcast-send", "tokio::sync::broadcast::Sender::send",
                         [f"{IMP}::ImporterInner::_commit_result"], CR, targ="ImporterResult",
                         detail="imports are announced exactly once, from _commit_result")
        # Uncommitted input goes through create_block_changes' ok-edge before _commit_result
        b = ctx.body_with(f"{IMP}::ImporterInner::commit_result", f"{IMP}::ImporterInner::_commit_result")
        cbc = ctx.one_call(b, f"{IMP}::create_block_changes")
        cr = ctx.one_call(b, f"{IMP}::ImporterInner::_commit_result")
        enum_q = f"{IMP}::CommitInput"
        vb, _ = ctx.variant_blocks(b, enum_q, "Uncommitted")
        ctx.add("4.uncommitted-arm-creates-block-changes", "DISPATCH", cbc.bb in vb,
                "create_block_changes is evaluated on the CommitInput::Uncommitted arm", sites=[cbc.where()], site_key=b.defq)
        edges, _ = ctx.ok_edges(cbc)
        # on the Uncommitted arm, _commit_result is reachable only through the ok-edge
        idx = ctx.variant_index(enum_q, "Uncommitted")
        sws = ctx.enum_switches(b, enum_q)
        starts = [ctx._edge_target(b, (bb, lab)) for (bb, sw, _) in sws for lab in sw.edge_for_value(idx)]
        p = b.path(starts, [cr.bb], cut_edges=set(edges)) if edges else [0]
        ctx.add("4.block-changes-ok-before-commit", "DOM", p is None,
                "on the Uncommitted arm _commit_result is reached only after create_block_changes succeeded",
                sites=[cr.where()], site_key=b.defq, witness=None if p is None else {"path": b.describe_path(p)})
        ctx.only_callers("4.create_block_changes-callers", f"{IMP}::create_block_changes",
                         [f"{IMP}::ImporterInner::commit_result", f"{IMP}::ImporterInner::prepare_import_result"], CR)

    # ---- 5. serialisation ---------------------------------------------------------------------
    with ctx.clause("5.lock"):
        for entry, inner in (("commit_result", "run_commit_result"), ("execute_and_commit", "run_prepare_import_result")):
            b = ctx.body_with(f"{IMP}::Importer::{entry}", f"{IMP}::Importer::lock")
            lock = ctx.one_call(b, f"{IMP}::Importer::lock")
            targets = b.calls_to(f"{IMP}::Importer::run_commit_result", f"{IMP}::Importer::run_prepare_import_result")
            ctx.expect_sites(f"5.{entry}-has-work", targets, at_least=1, what=f"command submissions in Importer::{entry}")
            ctx.after_ok(f"5.{entry}-locked", lock, targets, detail=f"Importer::{entry} submits work only while holding the import lock")
            ctx.held_across(f"5.{entry}-lock-held-until-done", lock, targets, "tokio::sync::SemaphorePermit",
                            detail=f"the permit taken by Importer::{entry} is kept (bound to a named guard) until the submitted work has returned: "
                                   "prepare and commit of one block cannot interleave with another import")
        lb = ctx.body_with(f"{IMP}::Importer::lock", "tokio::sync::batch_semaphore::Semaphore::try_acquire", "tokio::sync::semaphore::Semaphore::try_acquire")
        tr = lb.calls_to("tokio::sync::semaphore::Semaphore::try_acquire")
        ctx.expect_sites("5.try-acquire", tr, exactly=1, what="try_acquire in Importer::lock")
        ctx.arg_origin("5.lock-uses-guard", tr[0], 0, "field:fuel_core_importer::importer::Importer.guard")
        # the guard semaphore has exactly one permit
        nb = ctx.body_with(f"{IMP}::Importer::new", "tokio::sync::semaphore::Semaphore::new")
        o = Origins(nb, 1)
        ok = False
        where = []
        for bb, j, st in nb.stmts():
            if st["k"] == "assign" and st["rv"]["k"] == "agg" and st["rv"].get("adt") == f"{IMP}::Importer":
                gi = st["rv"]["fields"].index("guard")
                at = o.atoms(st["rv"]["ops"][gi])
                where.append(f"{nb.file}:{st.get('line')}")
                consts = {a[1] for a in at if a[0] == "const"}
                ok = ("call", "tokio::sync::semaphore::Semaphore::new") in at and consts == {1}
        ctx.add("5.single-permit", "CONST", ok, "Importer.guard is Semaphore::new(1)", sites=where, site_key=nb.defq)
        ctx.only_callers("5.commit-command", f"{IMP}::ImporterInner::commit_result", [f"{IMP}::ImporterInner::run"], CR,
                         detail="commit commands are processed by the single run loop")

    # ---- 6. verify before execute ---------------------------------------------------------------
    with ctx.clause("6.verify_and_execute"):
        b = ctx.body_with(f"{IMP}::ImporterInner::verify_and_execute_block_inner", "fuel_core_importer::ports::Validator::validate")
        ver = ctx.one_call(b, f"{PORTS}::BlockVerifier::verify_block_fields")
        val = ctx.one_call(b, f"{PORTS}::Validator::validate")
        ctx.after_ok("6.verify-before-validate", ver, [val], detail="block fields are verified before the block is executed")
        enum_q = "fuel_core_types::blockchain::consensus::Consensus"
        vb, edges = ctx.variant_blocks(b, enum_q, "Genesis")
        ctx.add("6.genesis-not-executed", "GUARD", bool(edges) and val.bb not in vb and
                b.path([ctx._edge_target(b, e) for e in edges], [val.bb]) is None,
                "a block with Genesis consensus never reaches Validator::validate", sites=[val.where()], site_key=b.defq)
        ctx.only_callers("6.validate-callers", f"{PORTS}::Validator::validate",
                         [f"{IMP}::ImporterInner::verify_and_execute_block_inner"], CR)

    # ---- 7. adapter: the importer database commits through the height-checked path -----------------
    with ctx.clause("7.adapter"):
        us = ctx.F.find_units("<fuel_core::state::generic_database::GenericDatabase as fuel_core_importer::ports::ImporterDatabase>::commit_changes", "fuel_core")
        if len(us) != 1:
            raise AnchorMissing(f"impl ImporterDatabase for Database::commit_changes: found {len(us)}")
        b = us[0].root
        calls = [c for c in b.calls if c.bb in b.live]
        inner = [c for c in calls if c.is_path("fuel_core::database::commit_changes_with_height_update")]
        ctx.expect_sites("7.adapter-uses-height-update", inner, exactly=1,
                         what="commit_changes_with_height_update in ImporterDatabase::commit_changes")
        ctx.must_pass("7.adapter-always-commits", b, inner, exits="all")
