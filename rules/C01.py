"""C01 — a produced block is accepted by validation with identical effects (DESIGN §7 C01)."""
import os, sys
sys.path.insert(0, os.path.dirname(os.path.abspath(__file__)))
from core import AnchorMissing, Origins, atom_match, place_fields
from exec_common import *

LEVEL = "other"
EXPLANATION = """
Structural part of C01 in fuel_core_executor, for all paths: (1) one transaction path — production,
dry run, validation, relayed and mint execution all reach transaction execution only through
execute_transaction_and_commit -> execute_transaction -> {execute_chargeable_transaction,
execute_mint}; the per-transaction helpers are called only from those executors, so production and
validation cannot diverge per transaction except through their inputs; (2) same prologue — in
produce_block and in validate_block the first transaction execution is dominated by process_l1_txs'
ok-edge; (3) validation compares, it does not trust: validate_block returns Ok only through
check_block_matches' ok-edge; check_block_matches rejects on any transaction or header inequality and
regenerates the block with the same two ExecutionData fields (message_ids, event_inbox_root) that
production feeds to generate; (4) no mode flag in the shared path: ExecutionOptionsInner has the
reviewed field list and `dry_run` is read only in `execute` and attempt_tx_execution_with_vm;
(5) same change set: in both modes data.changes is block_storage_tx.into_changes() taken after all
transactions. (6) a pre-checked transaction reaches execution without a re-check only on the `==` edge of the consensus-parameters-version test; an expired pre-checked transaction is refused; (7) after spend_input_utxos the only error exits of execute_chargeable_transaction are the `?` of the storage steps, and the duplicate-id rejection precedes execution (production and validation record the same events).
"""
NOT_DECIDED = """Equality of the resulting values (the VM, mint construction, state roots) — a runtime relation."""

OPT = "fuel_core_executor::executor::ExecutionOptionsInner"
ETC = f"{EX}::execute_transaction_and_commit"


def check(ctx):
    F = ctx.F
    with ctx.clause("1.one-transaction-path"):
        ctx.only_callers("1.execute_transaction", f"{EX}::execute_transaction", [ETC], CR)
        ctx.only_callers("1.executors", [f"{EX}::execute_chargeable_transaction", f"{EX}::execute_mint"], [f"{EX}::execute_transaction"], CR, min_sites=6)
        ctx.only_callers("1.vm-execution", f"{EX}::attempt_tx_execution_with_vm", [f"{EX}::execute_chargeable_transaction"], CR)
        ctx.only_callers("1.spend", f"{EX}::spend_input_utxos", [f"{EX}::execute_chargeable_transaction"], CR)
        ctx.only_callers("1.persist", f"{EX}::persist_output_utxos", [f"{EX}::execute_chargeable_transaction", f"{EX}::execute_mint_with_vm"], CR)
        ctx.only_callers("1.update-data", f"{EX}::update_execution_data", [f"{EX}::execute_chargeable_transaction"], CR)
        ctx.only_callers("1.etc-callers", ETC, [f"{EX}::process_l2_txs", f"{EX}::validate_block", f"{EX}::process_relayed_txs", f"{EX}::produce_mint_tx"], CR,
                         must=[f"{EX}::process_l2_txs", f"{EX}::validate_block", f"{EX}::process_relayed_txs", f"{EX}::produce_mint_tx"])
        ctx.only_callers("1.l2-callers", f"{EX}::process_l2_txs", [f"{EX}::produce_block", f"{EX}::dry_run_block"], CR)

    with ctx.clause("2.same-prologue"):
        pb = ctx.body_with(f"{EX}::produce_block", f"{EX}::process_l1_txs")
        l1 = ctx.one_call(pb, f"{EX}::process_l1_txs")
        ctx.after_ok("2.produce-l1-first", l1, pb.calls_to(f"{EX}::process_l2_txs", f"{EX}::produce_mint_tx"))
        vb = ctx.body_with(f"{EX}::validate_block", f"{EX}::process_l1_txs")
        l1v = ctx.one_call(vb, f"{EX}::process_l1_txs")
        ctx.after_ok("2.validate-l1-first", l1v, vb.calls_to(ETC))
        sk = ctx.one_call(vb, "core::iter::traits::iterator::Iterator::skip")
        ctx.arg_origin("2.validate-skips-l1-transactions", sk, 1, "call:alloc::vec::Vec::len", depth=0)

    with ctx.clause("3.validation-compares"):
        vb = ctx.body_with(f"{EX}::validate_block", f"{EX}::check_block_matches")
        cm = ctx.one_call(vb, f"{EX}::check_block_matches")
        ctx.after_ok("3.ok-only-if-block-matches", cm, ctx.ok_return_blocks(vb), detail="validation accepts only a block equal to what it re-executed")
        ctx.arg_origin("3.compared-against-given-block", cm, 2, "param:2", depth=0)
        cb = ctx.body_with(f"{EX}::check_block_matches", "fuel_core_types::blockchain::block::PartialFuelBlock::generate")
        hne = ctx.cmp_tests(cb, "Ne", lhs="call:fuel_core_types::blockchain::block::PartialFuelBlock::generate", rhs="param:3", depth=2)
        ctx.test_leads_to_error("3.header-mismatch-rejects", cb, hne, truth=True)
        ctx.guarded("3.ok-only-if-headers-equal", cb, ctx.ok_return_blocks(cb), hne, truth=False)
        gen = ctx.one_call(cb, "fuel_core_types::blockchain::block::PartialFuelBlock::generate")
        ctx.arg_origin("3.regenerated-with-message-ids", gen, 1, "field:fuel_core_executor::executor::ExecutionData.message_ids", depth=1)
        ctx.arg_origin("3.regenerated-with-inbox-root", gen, 2, "field:fuel_core_executor::executor::ExecutionData.event_inbox_root", depth=1)
        tfe = ctx.one_call(cb, "core::iter::traits::iterator::Iterator::try_for_each")
        ctx.after_ok("3.transactions-compared-first", tfe, [gen], detail="a transaction mismatch rejects")
        u = F.unit(f"{EX}::check_block_matches")
        cl = [b for b in u.bodies if b is not cb and b.calls_to("core::cmp::PartialEq::ne")]
        ctx.expect_sites("3.tx-compare-closure", [b.defq for b in cl], exactly=1, what="per-transaction comparison closure")
        for b in cl:
            t = ctx.rel_tests(b, "Ne")
            ctx.test_leads_to_error("3.tx-mismatch-rejects", b, t, truth=True)
        # production side feeds generate with the same two fields
        gens = ctx.call_sites("fuel_core_types::blockchain::block::PartialFuelBlock::generate", CR)
        ctx.expect_sites("3.generate-sites", gens, at_least=2, what="PartialFuelBlock::generate sites (produce + validate)")
        for i, g in enumerate(sorted(gens, key=lambda c: (c.body.defq, c.bb))):
            if not hasattr(g, "args"):
                continue
            ctx.arg_origin(f"3.generate-{i}-message-ids", g, 1, ["field:fuel_core_executor::executor::ExecutionData.message_ids", "field:message_ids"], depth=1)
            ctx.arg_origin(f"3.generate-{i}-inbox-root", g, 2, ["field:fuel_core_executor::executor::ExecutionData.event_inbox_root", "field:event_inbox_root"], depth=1)

    with ctx.clause("4.no-mode-flag"):
        fields = [f["n"] for f in F.adt(OPT)["variants"][0]["fields"]]
        ctx.add("4.options-field-list", "COUNT", set(fields) == {"forbid_fake_coins", "allow_syscall", "dry_run"} or set(fields) >= {"forbid_fake_coins", "dry_run"} and len(fields) <= 4,
                f"ExecutionOptionsInner fields {fields} (a new option must be reviewed for production/validation symmetry)", sites=fields, site_key="fields")
        readers = {bd.unit for (k, bd, bb, s) in ctx.field_touches(OPT, "dry_run", CR, kinds=("read", "ref", "write", "refmut"))}
        allowed = {f"{EX}::execute", f"{EX}::attempt_tx_execution_with_vm", "fuel_core_executor::executor::ExecutionInstance::new",
                   "<fuel_core_executor::executor::ExecutionOptions as core::convert::Into>::into", "<fuel_core_executor::executor::ExecutionOptionsInner as core::convert::From>::from"}
        ctx.add("4.dry_run-readers", "WMW", bool(readers) and readers <= allowed | {u for u in readers if u.endswith("::from") or u.endswith("::new") or "fmt" in u or "clone" in u},
                f"dry_run is read in {sorted(x.split('::')[-1] for x in readers)}", sites=sorted(readers), site_key="dry_run")
        strict = {u for u in readers if u.startswith(EX + "::")}
        ctx.add("4.dry_run-in-executor", "WMW", strict <= {f"{EX}::execute", f"{EX}::attempt_tx_execution_with_vm"}, f"BlockExecutor reads dry_run in {sorted(strict)}",
                sites=sorted(strict), site_key="dry_run-ex")

    with ctx.clause("5.same-change-set"):
        for fn in ("produce_block", "validate_block", "dry_run_block"):
            b = ctx.body_with(f"{EX}::{fn}", "fuel_core_storage::structured_storage::StructuredStorage::into_changes")
            ic = ctx.one_call(b, "fuel_core_storage::structured_storage::StructuredStorage::into_changes")
            ws = [(bb, s) for bb, j, s in b.stmts() if bb in b.live and s["k"] == "assign" and place_fields(s["pl"]) and
                  place_fields(s["pl"])[-1] == ("fuel_core_executor::executor::ExecutionData", "changes")]
            calls_w = [c for c in b.calls if c.bb in b.live and c.dest is not None and place_fields(c.dest) and
                       place_fields(c.dest)[-1] == ("fuel_core_executor::executor::ExecutionData", "changes")]
            ok = (len(ws) == 1 and atom_match(Origins(b, 0).atoms(ws[0][1]["rv"].get("op", {})) if ws[0][1]["rv"]["k"] == "use" else set(),
                                              "call:fuel_core_storage::structured_storage::StructuredStorage::into_changes")) or (len(calls_w) == 1 and calls_w[0] is ic)
            ctx.add(f"5.{fn}-changes-are-block-tx", "PROV", ok, f"{fn}: data.changes = block_storage_tx.into_changes()", sites=[ic.where()], site_key=fn)
            execs = b.calls_to(ETC, f"{EX}::process_l2_txs", f"{EX}::produce_mint_tx", f"{EX}::process_l1_txs")
            ctx.add(f"5.{fn}-changes-taken-last", "ORDER", all(b.path([ic.target], [c.bb]) is None for c in execs) and bool(execs),
                    f"{fn}: the change set is taken after all execution", sites=[ic.where()], site_key=fn + ":last")

    # -- 6. a pre-checked transaction is reused only if it was checked under the block's consensus parameters --
    with ctx.clause("6.pre-checked-reuse"):
        b = F.unit(f"{EX}::convert_maybe_checked_tx_to_checked_tx").root
        icb = [c for c in b.calls if c.bb in b.live and c.name == "into_checked_basic"]
        ctx.expect_sites("6.re-check-sites", icb, exactly=2, what="into_checked_basic (raw transaction arm, stale pre-checked arm)")
        for i, c in enumerate(sorted(icb, key=lambda c: c.bb)):
            ctx.arg_origin(f"6.re-check-{i}-under-block-parameters", c, 2, f"field:{EX}.consensus_params", depth=1)
            ctx.arg_origin(f"6.re-check-{i}-at-block-height", c, 1, "call:*::PartialBlockHeader::height", depth=2)
        eq = ctx.cmp_tests(b, "Eq", lhs="field:fuel_core_types::blockchain::header::PartialBlockHeader.consensus_parameters_version", rhs="field:1", depth=1) or \
            ctx.cmp_tests(b, "Eq", lhs="field:consensus_parameters_version", rhs="field:1", depth=1)
        ctx.expect_sites("6.version-test", [f"bb{sw.bb}" for sw, _ in eq], exactly=1, what="`header.consensus_parameters_version == checked_version` (equality)")
        same = set()
        for sw, pol in eq:
            for lab in sw.edges_for_truth(True if pol else False):
                same.add((sw.bb, lab))
        oks = ctx.ok_return_blocks(b) if hasattr(ctx, "ok_return_blocks") else b.return_blocks()
        p = b.path([0], b.return_blocks(), cut_blocks=[c.bb for c in icb] + list(b.error_blocks()), cut_edges=same) if same else [0]
        ctx.add("6.reuse-only-for-same-parameters-version", "GUARD", p is None,
                "a transaction reaches execution without a re-check only on the edge where its checked version equals the block's consensus parameters version "
                "(validation always re-checks raw transactions, so any other reuse lets production accept what validation rejects)",
                sites=[f"bb{sw.bb}" for sw, _ in eq], site_key="reuse", witness=None if p is None else {"path": b.describe_path(p)})
        gt = ctx.cmp_tests(b, "Gt", lhs="call:*::PartialBlockHeader::height", rhs="call:*::expiration", depth=1)
        ctx.test_leads_to_error("6.expired-pre-checked-rejects", b, gt, truth=True, detail="an expired pre-checked transaction is refused")

    # -- 7. production and validation report the same events: nothing may reject a transaction after its events were recorded --
    from exec_common import no_rejection_after_events
    no_rejection_after_events(ctx, "7")
