"""C11 — all storage backends store and iterate identically (commit path only; DESIGN §7 C11)."""
from core import AnchorMissing, Origins, atom_match

LEVEL = "other"
EXPLANATION = """
Claimed for the commit path only. (1) TYCOLLECT: nowhere in fuel_core / fuel_core_storage is an
iterator containing Flatten / FlatMap / Chain collected (collect / from_iter / extend) into the
map-of-maps type `Changes` (HashMap<u32, BTreeMap<..>>): collecting a flattened list replaces the
whole column map of an earlier element (defect D1, fixed); (2) SIBLING: every backend's commit
handles both StorageChanges variants without wildcard, and every element of a list goes through the
backend's per-entry routine whose conflict test (`conflict_finder.insert(..)` false, or the merged
map already containing the key) is an error exit — MemoryStore::_insert_changes,
RocksDb::_populate_batch, HistoricalRocksDB::commit_changes' merge loop; (3) every
KeyValueInspect / IterableStore method of HistoricalRocksDB delegates to the same-named method of
its inner RocksDb with the column wrapped as Column::OriginalColumn; (4) RocksDb::_iter_store
dispatches on (prefix, start) over all four combinations and the (Some, Some) arm returns the empty
iterator when start does not start with prefix; (5) history bookkeeping does not leak into the original
columns: in store_modifications_history the reverse changes are computed from the block's own change
set *before* cleanup_old_changes adds history removals to the transaction, and the per-key history is
written under historical_duplicate_column_id(column). (6) RocksDb reverse prefix iteration seeks at the tight successor of the prefix: next_prefix increments by one, drops (or zeroes) the bytes it steps over, carries into the previous byte, returns None only when exhausted, and the inclusive seek skips a leading key outside the prefix (defect D2, fixed). (7) RocksDb `set_prefix_same_as_start` is used only by the arm whose seek key is the prefix itself; in the in-memory iterator no prefix cut is applied to a reversed range that is unbounded above.
"""
NOT_DECIDED = """Ordering and prefix-boundary behaviour of reverse_prefix_iter / next_prefix (observation
D2) and of the BTreeMap reference iterator — byte-level semantics, explicitly not decided."""

CR = ["fuel_core", "fuel_core_storage"]
ST = "fuel_core::state"
H = f"{ST}::historical_rocksdb::HistoricalRocksDB"
R = f"{ST}::rocks_db::RocksDb"
M = f"{ST}::in_memory::memory_store::MemoryStore"
SC = "fuel_core_storage::transactional::StorageChanges"
CHANGES_PREFIX = "std::collections::HashMap<u32, std::collections::BTreeMap<fuel_core_storage::transactional::ReferenceBytesKey"
LOSSY = ("Flatten<", "FlatMap<", "Chain<")
COLLECTS = ("core::iter::traits::iterator::Iterator::collect", "core::iter::traits::collect::FromIterator::from_iter",
            "core::iter::traits::collect::Extend::extend", "itertools::Itertools::try_collect")


def check(ctx):
    F = ctx.F
    with ctx.clause("1.no-lossy-collect"):
        sites, bad = [], []
        for c in ctx.call_sites(list(COLLECTS), CR, include_refs=False):
            tys = c.targs + ([c.self_ty] if c.self_ty else [])
            into_changes = any(t.startswith(CHANGES_PREFIX) for t in tys[1:]) or (c.name == "extend" and tys and tys[0].startswith(CHANGES_PREFIX))
            if not into_changes:
                continue
            sites.append(c)
            src = tys[0] if c.name != "extend" else " ".join(tys[1:])
            if any(x in src for x in LOSSY):
                bad.append(c)
        ctx.expect_sites("1.collects-into-changes", sites, at_least=2, what="collect/extend sites producing a `Changes` map (positive control)")
        for c in bad:
            ctx.add("1.lossy-collect", "TYCOLLECT", False, f"a flattened / chained iterator is collected into Changes in {c.body.defq} ({c.where()}): later elements replace whole column maps",
                    sites=[c.where()], site_key=c.body.unit)
        if not bad:
            ctx.add("1.lossy-collect", "TYCOLLECT", True, "no Flatten/FlatMap/Chain iterator is collected into the map-of-maps type Changes",
                    sites=[c.where() for c in sites], site_key="none")

    with ctx.clause("2.commit-siblings"):
        for name, unit_q, per_entry in (("memory", f"<{M} as {ST}::TransactableStorage>::commit_changes", f"{M}::_insert_changes"),
                                        ("rocksdb", f"{R}::commit_changes", f"{R}::_populate_batch")):
            b = F.unit(unit_q).root
            ctx.dispatch_total(f"2.{name}-both-variants", b, SC)
            arms = ctx.match_arms(b, SC)
            for v in ("Changes", "ChangesList"):
                cs = [c for c in b.calls_to(per_entry) if c.bb in arms.get(v, set())]
                ctx.expect_sites(f"2.{name}-{v}-through-per-entry-routine", cs, exactly=1, what=f"{per_entry.split('::')[-1]} on StorageChanges::{v}")
            lst = [c for c in b.calls_to(per_entry) if c.bb in arms.get("ChangesList", set())]
            nxt = [c for c in b.calls_to("core::iter::traits::iterator::Iterator::next") if c.bb in arms.get("ChangesList", set())]
            ok = bool(lst) and bool(nxt)
            if ok:
                some, _ = ctx.ok_edges(nxt[0])
                ok = b.path([ctx._edge_target(b, e) for e in some], [nxt[0].bb], cut_blocks=[lst[0].bb] + list(b.error_blocks())) is None
            ctx.add(f"2.{name}-every-list-element-applied", "MPT", ok, "every element of a ChangesList is applied (none skipped)", sites=[c.where() for c in lst], site_key=name)
            pb = F.unit(per_entry).root
            t = ctx.call_tests(pb, "std::collections::hash::set::HashSet::insert")
            ctx.test_leads_to_error(f"2.{name}-conflict-rejects", pb, t, truth=False, detail="two writes to the same key in one commit are rejected")
            ctx.only_callers(f"2.{name}-per-entry-callers", per_entry, [unit_q], ["fuel_core"], min_sites=2)
        hb = F.unit(f"<{H} as {ST}::TransactableStorage>::commit_changes").root
        ctx.dispatch_total("2.historical-both-variants", hb, SC)
        t = ctx.call_tests(hb, "alloc::collections::btree::map::BTreeMap::contains_key")
        ctx.test_leads_to_error("2.historical-conflict-rejects", hb, t, truth=True, detail="the merge of a ChangesList rejects a key written twice (parity with the other backends)")
        ins = hb.calls_to("alloc::collections::btree::map::BTreeMap::insert")
        ctx.guarded("2.historical-merge-only-new-keys", hb, ins, t, truth=False)
        fin = ctx.one_call(hb, f"{R}::commit_changes")
        ctx.must_pass("2.historical-commits-to-rocksdb", hb, [fin])

    with ctx.clause("3.historical-read-delegation"):
        COL = f"{ST}::historical_rocksdb::description::Column"
        n = 0
        for tr, methods in (("fuel_core_storage::kv_store::KeyValueInspect", None), ("fuel_core_storage::iter::IterableStore", None)):
            for u in F.find_units(f"<{H} as {tr}>::*", "fuel_core"):
                m = u.q.rsplit("::", 1)[-1]
                b = u.root
                inner = [c for c in b.calls if c.bb in b.live and c.path == f"{tr}::{m}" and c.self_ty and "rocks_db::RocksDb" in c.self_ty]
                ok = len(inner) == 1
                if ok:
                    at = set()
                    for a in inner[0].args:
                        at |= Origins(b, 0).atoms(a)
                    ok = atom_match(at, f"agg:{COL}::OriginalColumn") and atom_match(Origins(b, 0).atoms(inner[0].args[0]), f"field:{H}.db")
                    ok = ok and b.path([0], b.return_blocks(), cut_blocks=[inner[0].bb]) is None
                n += 1
                ctx.add(f"3.{tr.rsplit('::', 1)[-1]}-{m}-delegates", "SIBLING", ok, f"HistoricalRocksDB::{m} delegates to self.db.{m}(.., Column::OriginalColumn(column), ..)",
                        sites=[c.where() for c in inner], site_key=f"{tr}:{m}")
        ctx.add("3.methods-covered", "COUNT", n >= 7, f"{n} read methods of HistoricalRocksDB checked (expected >= 7)", sites=[str(n)], site_key="n")

    with ctx.clause("4.iter_store-dispatch"):
        b = F.unit(f"{R}::_iter_store").root
        OPT = "core::option::Option"
        sws = ctx.enum_switches(b, OPT)
        ctx.expect_sites("4.prefix-start-match", [f"bb{bb}" for bb, _, _ in sws], at_least=3, what="switches of the (prefix, start) match")
        it = b.calls_to(f"{R}::iterator", f"{R}::reverse_prefix_iter")
        ctx.expect_sites("4.iterator-sites", it, at_least=5, what="iterator constructions for the four (prefix, start) cases")
        sw = ctx.call_tests(b, "core::slice::<impl [T]>::starts_with", ) or ctx.call_tests(b, "[T]::starts_with")
        empties = b.calls_to("core::iter::sources::empty::empty")
        ctx.guarded("4.start-outside-prefix-is-empty", b, empties, sw, truth=False, detail="(Some(prefix), Some(start)) with a start outside the prefix yields nothing")

    with ctx.clause("5.history-stays-out-of-original-columns"):
        sb = ctx.body_with(f"{H}::store_modifications_history", f"{H}::reverse_history_changes")
        rev = ctx.one_call(sb, f"{H}::reverse_history_changes")
        cl = ctx.one_call(sb, f"{ST}::historical_rocksdb::cleanup_old_changes")
        ctx.add("5.reverse-before-cleanup", "ORDER", sb.path([cl.target], [rev.bb]) is None and sb.path([rev.bb], [cl.bb]) is not None,
                "reverse changes are computed over the block's own writes, before the history cleanup touches the transaction",
                sites=[rev.where(), cl.where()], site_key="order")
        ctx.arg_origin("5.reverse-of-transaction-changes", rev, 1, "call:fuel_core_storage::structured_storage::StructuredStorage::changes", depth=0)
        u = F.unit(f"{H}::store_modifications_history")
        dup = [c for b in u.bodies for c in b.calls_to(f"{ST}::historical_rocksdb::description::historical_duplicate_column_id")]
        ctx.expect_sites("5.history-in-duplicate-columns", dup, exactly=1, what="historical_duplicate_column_id(column) for the per-key history")
        ru = F.unit(f"{ST}::historical_rocksdb::remove_historical_modifications")
        dup2 = [c for b in ru.bodies for c in b.calls_to(f"{ST}::historical_rocksdb::description::historical_duplicate_column_id")]
        ctx.expect_sites("5.history-removed-from-duplicate-columns", dup2, exactly=1, what="historical_duplicate_column_id(column) when removing per-key history")

    # -- 6. reverse prefix iteration of RocksDb starts at the tight successor of the prefix --
    with ctx.clause("6.reverse-prefix-seek"):
        RDB = "fuel_core::state::rocks_db"
        nb = F.unit(f"{RDB}::next_prefix").root
        ca = ctx.one_call(nb, "u8::checked_add", "core::num::<impl u8>::checked_add")
        ctx.const_arg("6.successor-increments-by-one", ca, 1, 1)
        # a byte that cannot be incremented (0xFF) must not stay in the successor: it is removed (pop / truncate) or zeroed
        shorten = [c for c in nb.calls if c.bb in nb.live and c.name in ("pop", "truncate", "split_off", "drain", "fill", "resize")]
        zeroed = [s for bb, j, s in nb.stmts() if bb in nb.live and s["k"] == "assign" and "*" in (s["pl"].get("p") or []) and s["rv"]["k"] == "use" and
                  s["rv"]["op"].get("k") == "const" and str(s["rv"]["op"].get("v")) in ("0", "0_u8")]
        ctx.add("6.overflowing-bytes-are-dropped", "LINREL", bool(shorten or zeroed),
                "next_prefix removes (or zeroes) the trailing 0xFF bytes it steps over: the successor of [a, 0xFF] is [a+1], not [a+1, 0xFF] — "
                "otherwise a key between the prefix range and that value is hit first by the inclusive reverse seek and the iteration ends empty",
                sites=[c.where() for c in shorten] or [f"{nb.file}:{nb.line}"], site_key="tight")
        bad, _ = ctx.ok_edges(ca, polarity="bad")
        loop_heads = [c for c in nb.calls if c.bb in nb.live and c.name in ("pop", "next", "next_back")]
        ctx.add("6.overflow-carries-to-the-previous-byte", "ORDER", bool(bad) and bool(loop_heads) and all(nb.path([ctx._edge_target(nb, e)], [c.bb for c in loop_heads]) is not None for e in bad),
                "when the last byte is 0xFF the increment carries into the byte before it (None only when every byte overflows)", sites=[ca.where()], site_key="carry")
        nones = [bb for bb, j, s in nb.stmts() if bb in nb.live and s["k"] == "assign" and s["rv"]["k"] == "agg" and s["rv"].get("adt") == "core::option::Option" and s["rv"].get("variant") == "None"]
        okn = bool(bad) and all(nb.path([ctx._edge_target(nb, e)], nones, cut_blocks=[c.bb for c in loop_heads]) is None for e in bad)
        ctx.add("6.none-only-when-exhausted", "GUARD", okn, "next_prefix returns None only after all bytes were tried", sites=[f"bb{x}" for x in nones], site_key="none")
        ru = F.unit(f"{RDB}::RocksDb::reverse_prefix_iter")
        rb = ru.root
        npc = [c for x in ru.bodies for c in x.calls if c.bb in x.live and c.is_path(f"{RDB}::next_prefix")]
        ctx.expect_sites("6.seek-at-successor", npc, exactly=1, what="next_prefix(prefix) as the reverse seek key")
        tw = [c for c in rb.calls if c.bb in rb.live and c.name == "take_while"]
        ctx.expect_sites("6.prefix-filter", tw, exactly=2, what="take_while(starts_with(prefix)) on both branches")
        sk = [c for c in rb.calls if c.bb in rb.live and c.name in ("skip_while", "skip", "filter")]
        ctx.add("6.inclusive-seek-skips-foreign-first-key", "GUARD", len(sk) >= 1 and all(any(rb.path([s_.target], [t.bb]) is not None for t in tw) for s_ in sk),
                "the reverse seek is inclusive: a key equal to the successor is skipped before the prefix filter is applied", sites=[c.where() for c in sk], site_key="skip")

    # -- 7. seek / bound idioms of prefix iteration that make a backend skip keys --
    with ctx.clause("7.prefix-iteration-idioms"):
        # (a) RocksDb: `set_prefix_same_as_start` confines the iterator to the extractor prefix of the *seek key*; it is only
        #     sound where the seek key is the user prefix itself (prefix-only forward iteration), never when seeking at `start`
        ib = F.unit("fuel_core::state::rocks_db::RocksDb::_iter_store").root
        sets = [c for c in ib.calls if c.bb in ib.live and c.name == "set_prefix_same_as_start"]
        its = [c for c in ib.calls if c.bb in ib.live and c.is_path("fuel_core::state::rocks_db::RocksDb::iterator")]
        ctx.expect_sites("7.rocksdb-iterator-sites", its, at_least=4, what="RocksDb::iterator calls in _iter_store")
        bad7 = []
        for s_ in sets:
            fed = [c for c in its if ib.path([s_.target], [c.bb]) is not None]
            for c in fed:
                mode = Origins(ib, 3).atoms(c.args[3])
                if not atom_match(mode, "agg:rocksdb::db_iterator::IteratorMode::From"):
                    continue
                if atom_match(mode, "param:4") or not atom_match(mode, "param:3"):
                    bad7.append(f"{c.where()} seeks at `start` with set_prefix_same_as_start (line {s_.line})")
        ctx.add("7.prefix_same_as_start-only-when-seeking-at-the-prefix", "GUARD", not bad7 and len(sets) <= 1,
                "set_prefix_same_as_start is used only by the arm that seeks at the user prefix" + ("; " + "; ".join(bad7) if bad7 else "") +
                (": on a column with a fixed-size prefix extractor the iteration would end at the 32-byte section of `start` instead of at the user prefix" if bad7 else ""),
                sites=[c.where() for c in sets], site_key="psas")
        # (b) in-memory (BTreeMap) iteration: a reversed range may be cut with take_while(starts_with) only if the range is bounded
        #     above; `range(prefix..).rev().take_while(..)` starts at the largest key of the tree and ends at once
        for fn in ("iterator", "keys_iterator"):
            mb = F.unit(f"fuel_core_storage::iter::{fn}").root
            tws = [c for c in mb.calls if c.bb in mb.live and c.name == "take_while"]
            if fn == "iterator":
                ctx.expect_sites(f"7.{fn}-prefix-cuts", tws, at_least=3, what="take_while(starts_with(prefix)) sites")
            else:
                dele = [c for c in mb.calls if c.bb in mb.live and c.is_path("fuel_core_storage::iter::iterator")]
                ctx.add(f"7.{fn}-delegates-ranges-to-iterator", "SIBLING", len(tws) >= 3 or len(dele) >= 1, "keys_iterator handles prefix / start through iterator() (or its own cuts)",
                        sites=[c.where() for c in dele + tws], site_key="dele")
            o7 = Origins(mb, 6)
            bad = []
            for c in tws:
                at = o7.atoms(c.args[0])
                if atom_match(at, "call:core::iter::traits::iterator::Iterator::rev") and atom_match(at, "agg:core::ops::range::RangeFrom::RangeFrom") and \
                        not atom_match(at, "agg:core::ops::range::RangeToInclusive::RangeToInclusive") and not atom_match(at, "agg:core::ops::range::Range::Range"):
                    bad.append(c.where())
            ctx.add(f"7.{fn}-no-reversed-unbounded-range-before-prefix-cut", "ORDER", not bad,
                    "no `range(prefix..).rev().take_while(starts_with)`: reverse prefix iteration either cuts the forward range first and reverses the collected keys, or reverses a range bounded above"
                    + (f" — found at {bad}: for a prefix whose range is not the last one of the tree the result is empty" if bad else ""), sites=bad or [c.where() for c in tws], site_key=fn)
