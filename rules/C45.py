"""C45 — dry runs and read-only queries leave the chain state unchanged (DESIGN §7 C45)."""
from core import AnchorMissing, Origins, atom_match

LEVEL = "other"
EXPLANATION = """
Effect analysis for C45: bounded call-graph reachability (direct calls + resolved / class-hierarchy
trait dispatch over the analysed workspace crates) from the read-only entry points — Producer::dry_run,
Producer::storage_read_replay, upgradable Executor::{dry_run, storage_read_replay,
dry_run_without_commit_with_source, native_storage_read_replay} and the GraphQL resolvers dry_run /
estimate_predicates / assemble_tx — must not reach a state-changing sink: a backend commit
(TransactableStorage::commit_changes, RocksDb::commit_changes, commit_changes_with_height_update,
Modifiable::commit_changes on anything but an in-memory transaction), the importer
(commit_result / execute_and_commit), a pool mutation (insert, spend / extract) or a status
publication. Commits of in-memory storage transactions (StructuredStorage<InMemoryTransaction<..>>)
are classified by peeling the receiver type: their parent must itself be an in-memory transaction.
The change set produced by a dry run is not handed to anything (dropped): in Executor::dry_run the
changes of the produced result flow to no call; the executor's dry-run entry points are generic over a
storage that is only required to be a (historical) view. (4) the dry-run path never acquires the producer's production lock (block production does, as positive control).
"""
NOT_DECIDED = """Determinism of repeated answers beyond the absence of non-chain inputs (wall clock, relayer progress, pool, randomness) on the producer- and executor-side dry-run paths; the wasm executor path (feature wasm-executor is not analysed)."""

CRATES = ["fuel_core", "fuel_core_producer", "fuel_core_upgradable_executor", "fuel_core_executor", "fuel_core_storage", "fuel_core_txpool",
          "fuel_core_importer", "fuel_core_tx_status_manager", "fuel_core_types"]
PROD = "fuel_core_producer::block_producer::Producer"
UEX = "fuel_core_upgradable_executor::executor::Executor"

SINKS = [
    "fuel_core::state::TransactableStorage::commit_changes", "fuel_core::state::rocks_db::RocksDb::commit_changes",
    "fuel_core::database::commit_changes_with_height_update", "fuel_core::state::TransactableStorage::rollback_block_to",
    "fuel_core_importer::importer::Importer::commit_result", "fuel_core_importer::importer::Importer::execute_and_commit",
    "fuel_core_importer::ports::ImporterDatabase::commit_changes",
    "fuel_core_txpool::pool::Pool::insert", "fuel_core_txpool::pool::Pool::extract_transactions_for_block",
    "fuel_core_txpool::spent_inputs::SpentInputs::spend_inputs", "fuel_core_txpool::spent_inputs::SpentInputs::maybe_spend_inputs",
    "fuel_core_txpool::spent_inputs::SpentInputs::spend_inputs_by_tx_id",
    "fuel_core_txpool::shared_state::SharedState::insert", "fuel_core_txpool::shared_state::SharedState::try_insert",
    "fuel_core_txpool::shared_state::SharedState::extract_transactions_for_block",
    "fuel_core_tx_status_manager::manager::TxStatusManager::status_update", "fuel_core_tx_status_manager::service::SharedData::update_status",
    "fuel_core::graphql_api::ports::TxPoolPort::insert", "fuel_core::graphql_api::ports::BlockProducerPort::*produce*",
    "fuel_core_poa::ports::BlockImporter::*",
]
INMEM = "fuel_core_storage::structured_storage::StructuredStorage<fuel_core_storage::transactional::InMemoryTransaction<"


def parent_of_inmem(ty):
    """S in StructuredStorage<InMemoryTransaction<S>> (after peeling & / &mut)"""
    t = ty
    while t.startswith("&"):
        t = t[1:].lstrip()
        if t.startswith("mut "):
            t = t[4:]
        if t.startswith("'"):
            t = t.split(" ", 1)[1] if " " in t else t
    if not t.startswith(INMEM):
        return None
    inner = t[len(INMEM):]
    # strip the two closing '>'
    return inner[:-2] if inner.endswith(">>") else inner


def peel(t):
    t = t.strip()
    while t.startswith("&"):
        t = t[1:].lstrip()
        if t.startswith("mut "):
            t = t[4:]
    return t


def check(ctx):
    F = ctx.F
    with ctx.clause("1.no-state-changing-sink-reachable"):
        roots = [f"{PROD}::dry_run", f"{PROD}::storage_read_replay", f"{UEX}::dry_run", f"{UEX}::storage_read_replay",
                 f"{UEX}::native_storage_read_replay"]
        gq = []
        for pat in ("*schema::tx::TxQuery::dry_run*", "*schema::tx::TxQuery::estimate_predicates*", "*schema::tx::TxQuery::assemble_tx*",
                    "*schema::tx::TxQuery::storage_read_replay*", "*schema::tx::TxQuery::dry_run_record_storage_reads*"):
            gq += [u.q for u in F.find_units(pat, "fuel_core")]
        gq = sorted(set(gq))
        ctx.expect_sites("1.graphql-roots", gq, at_least=3, what="GraphQL read-only resolvers (dry_run, estimate_predicates, assemble_tx)")
        # - generic storage code (fuel_core_storage) is not descended into: commits are classified at the
        #   call site from the concrete receiver type (peeling);
        # - TransactionsSource::next is a caller-provided port: the dry-run path instantiates it with
        #   OnceTransactionsSource (checked below), so it is not expanded to every workspace impl.
        visited, calls = ctx.reach_calls(roots + gq, CRATES, max_depth=14,
                                         stop=["fuel_core_storage::*", "<* as fuel_core_storage::*", "<* as fuel_storage::*"],
                                         no_cha=["fuel_core_executor::ports::TransactionsSource::next"])
        db = ctx.body_with(f"{UEX}::dry_run", f"{UEX}::produce_inner_sync")
        once = db.calls_to("fuel_core_executor::executor::OnceTransactionsSource::new")
        ctx.expect_sites("1.dry-run-source-is-fixed-list", once, exactly=1, what="OnceTransactionsSource::new in Executor::dry_run")
        ctx.arg_origin("1.dry-run-executes-that-source", ctx.one_call(db, f"{UEX}::produce_inner_sync"), 1,
                       "call:fuel_core_executor::executor::OnceTransactionsSource::new", depth=1)
        ctx.expect_sites("1.units-reached", sorted({q for q, _ in visited})[:12], at_least=8, what="units reachable from the read-only entry points")
        ctx.add("1.reach-size", "COUNT", len(visited) >= 40, f"{len(visited)} units / {len(calls)} call sites explored from {len(roots) + len(gq)} roots", sites=[str(len(visited))], site_key="size")
        bad = []
        seen_keys = set()
        for c, chain in calls:
            hit = None
            if any(c.is_path(s) for s in SINKS):
                hit = c.path
            elif c.is_path("fuel_core_storage::transactional::Modifiable::commit_changes"):
                st = peel(c.self_ty or "")
                if not (st.startswith(INMEM) or st.startswith("fuel_core_storage::transactional::InMemoryTransaction<")):
                    # generic parameter: acceptable only inside the storage crate's own forwarding impls / StorageTransaction::commit
                    if not c.body.unit.startswith("fuel_core_storage::") and not c.body.unit.startswith("<") :
                        hit = f"Modifiable::commit_changes on {st}"
            elif c.is_path("fuel_core_storage::structured_storage::StructuredStorage::commit"):
                par = parent_of_inmem(c.self_ty or "")
                if par is None:
                    hit = f"commit of a non in-memory transaction: {c.self_ty}"
                else:
                    pp = peel(par)
                    if not (pp.startswith(INMEM) or pp.startswith("fuel_core_storage::transactional::InMemoryTransaction<") or
                            pp.startswith("fuel_core_executor::storage_access_recorder::StorageAccessRecorder<")):
                        hit = f"commit into parent `{par}`"
            if hit:
                key = (c.body.unit, hit)
                if key in seen_keys:
                    continue
                seen_keys.add(key)
                bad.append((c, chain, hit))
        for c, chain, hit in bad:
            ctx.add("1.sink-reached", "EFFECT", False, f"state-changing call `{hit}` at {c.where()} is reachable from a read-only entry point via {' -> '.join(x.split('::')[-1] for x in chain)}",
                    sites=[c.where()], site_key=f"{c.body.unit}:{hit}", witness={"chain": list(chain)})
        if not bad:
            ctx.add("1.sink-reached", "EFFECT", True, "no backend commit, import, pool mutation or status publication is reachable from the read-only entry points",
                    sites=sorted({q for q, _ in visited})[:12], site_key="none")
        # positive control: the same query started from the block-producing entry point does reach a commit sink
        pv, pcalls = ctx.reach_calls(["fuel_core_poa::service::MainTask::produce_block", "fuel_core_importer::importer::ImporterInner::_commit_result"],
                                     CRATES + ["fuel_core_poa"], max_depth=6)
        hits = [c for c, _ in pcalls if any(c.is_path(s) for s in SINKS)]
        ctx.add("1.positive-control", "EFFECT", len(hits) >= 1, f"control: from the producing / importing entry points {len(hits)} sink call sites are reached (the query is not vacuous)",
                sites=[c.where() for c in hits[:4]], site_key="control")

    with ctx.clause("2.dry-run-changes-dropped"):
        b = ctx.body_with(f"{UEX}::dry_run", f"{UEX}::produce_inner_sync")
        pis = ctx.one_call(b, f"{UEX}::produce_inner_sync")
        forb = [c for c in b.calls if c.bb in b.live and ("commit" in c.name or "into_changes" == c.name or c.name == "changes")]
        ctx.expect_sites("2.no-commit-in-dry_run", forb, exactly=0, what="commit / changes access in Executor::dry_run")
        forb = [c for x in F.unit(f"{PROD}::dry_run").bodies for c in x.calls if c.bb in x.live and ("commit" in c.name or c.name in ("into_changes", "insert"))]
        ctx.expect_sites("2.no-commit-in-producer-dry_run", forb, exactly=0, what="commit / insert in Producer::dry_run")

    with ctx.clause("3.bounds"):
        for fn in ("dry_run", "storage_read_replay", "native_storage_read_replay"):
            items = F.fn_item(f"{UEX}::{fn}", crate="fuel_core_upgradable_executor")
            for it in items:
                preds = " ".join(it["preds"])
                bad = [p for p in it["preds"] if p.startswith("S: ") and any(x in p for x in ("Modifiable", "KeyValueMutate", "Transactional", "StorageMutate"))]
                ctx.add(f"3.{fn}-storage-is-view-only", "BOUND", not bad and ("HistoricalView" in preds or "AtomicView" in preds),
                        f"Executor::{fn} requires of its storage only view capabilities", sites=[p for p in it["preds"] if p.startswith("S:")][:3], site_key=fn)

    # -- 3. repeatability, structural part: the dry-run path consults no input other than the chain view --
    with ctx.clause("3.no-non-chain-input"):
        NONDET = ["tai64::Tai64::now", "std::time::SystemTime::now", "std::time::Instant::now", "tokio::time::Instant::now",
                  "tokio::time::instant::Instant::now", "rand::*", "fuel_core_producer::ports::Relayer::*", "fuel_core_producer::ports::TxPool::*",
                  "fuel_core_producer::block_producer::gas_price::GasPriceProvider::production_gas_price",
                  "fuel_core_producer::block_producer::Producer::new_header_with_new_da_height",
                  "fuel_core_producer::block_producer::Producer::select_new_da_height"]
        groups = [
            ("producer", [f"{PROD}::dry_run", f"{PROD}::storage_read_replay"], ["fuel_core_producer"], 6),
            ("executor", [f"{UEX}::dry_run", f"{UEX}::storage_read_replay",
                          "<fuel_core::service::adapters::ExecutorAdapter as fuel_core_producer::ports::DryRunner>::dry_run",
                          "<fuel_core::service::adapters::ExecutorAdapter as fuel_core_producer::ports::StorageReadReplayRecorder>::storage_read_replay"],
             ["fuel_core_upgradable_executor"], 8),
        ]
        for name, rts, crs, floor in groups:
            for r in rts:
                F.unit(r)  # AnchorMissing if an entry point disappears
            v, cs = ctx.reach_calls(rts, crs, max_depth=8)
            ctx.add(f"3.{name}-reach-size", "COUNT", len(v) >= floor, f"{len(v)} units / {len(cs)} call sites of {crs[0]} reachable from the {name} dry-run entry points",
                    sites=sorted({q for q, _ in v})[:10], site_key="size")
            badc = [(c, ch) for c, ch in cs if any(c.is_path(s) for s in NONDET)]
            seen = set()
            for c, ch in badc:
                k = (c.body.unit, c.path)
                if k in seen:
                    continue
                seen.add(k)
                ctx.add(f"3.{name}-non-chain-input", "EFFECT", False,
                        f"`{c.path}` (wall clock / relayer progress / pool / randomness) at {c.where()} is consulted on the dry-run path via {' -> '.join(x.split('::')[-1] for x in ch)}: "
                        f"the answer then differs between two identical requests on an unchanged chain",
                        sites=[c.where()], site_key=f"{c.body.unit}:{c.path}", witness={"chain": list(ch)})
            if not badc:
                ctx.add(f"3.{name}-non-chain-input", "EFFECT", True, f"no wall-clock, relayer-progress, pool or randomness source is called on the {name} dry-run path",
                        sites=sorted({q for q, _ in v})[:10], site_key="none")
        # positive control: the producing path does consult the relayer
        pv, pcs = ctx.reach_calls([f"{PROD}::produce_and_execute"], ["fuel_core_producer"], max_depth=6)
        hits = [c for c, _ in pcs if any(c.is_path(s) for s in NONDET)]
        ctx.add("3.positive-control", "EFFECT", len(hits) >= 1, f"control: the block-producing path reaches {len(hits)} such sources (relayer DA height)", sites=[c.where() for c in hits[:3]], site_key="control")

    # -- 4. a dry run does not contend for the production lock (its answer must not depend on concurrent requests) --
    with ctx.clause("4.no-production-lock"):
        du = F.unit(f"{PROD}::dry_run")
        lk = []
        for x in du.bodies:
            for c in x.calls:
                if c.bb in x.live and c.name in ("try_lock", "lock", "lock_owned", "try_lock_owned", "blocking_lock", "try_acquire", "acquire", "acquire_owned", "try_acquire_owned"):
                    at = ctx.resolved_atoms(du, x, c.args[0], 2) if c.args else set()
                    if atom_match(at, f"field:{PROD}.lock") or atom_match(at, f"field:{PROD}.*lock*") or atom_match(at, f"field:{PROD}.*semaphore*"):
                        lk.append(c)
        ctx.expect_sites("4.dry-run-takes-no-production-lock", lk, exactly=0,
                         what="acquisition of the producer's production lock on the dry-run path (a dry run overlapping another request would fail or wait instead of giving the same answer)")
        pu = F.unit(f"{PROD}::produce_and_execute")
        plk = [c for x in pu.bodies for c in x.calls if c.bb in x.live and c.name in ("try_lock", "lock") and atom_match(ctx.resolved_atoms(pu, x, c.args[0], 2) if c.args else set(), f"field:{PROD}.lock")]
        ctx.add("4.positive-control", "EFFECT", len(plk) >= 1, f"control: block production does take that lock ({len(plk)} site)", sites=[c.where() for c in plk], site_key="ctl")
