"""C05 — relayed DA events are imported exactly once with a matching inbox root (DESIGN §7 C05)."""
import os, sys
sys.path.insert(0, os.path.dirname(os.path.abspath(__file__)))
from core import AnchorMissing, Origins, atom_match, place_fields
from exec_common import *

LEVEL = "other"
EXPLANATION = """
Structural necessary conditions of C05 in BlockExecutor::process_da, for all paths: the DA range is
RangeInclusive(previous_da_height + 1, block da height) with the start computed by checked_add(.., 1)
(overflow => error) from the previous block's header (missing previous block / genesis => error);
for every event the root calculator is fed with event.hash() before the event is dispatched; the
dispatch over relayer::Event has no wildcard; a message whose da_height differs from the height
being processed is rejected, otherwise it is inserted into Messages and reported (shared with C02);
a forced transaction goes through validate_forced_tx and both outcomes are handled (checked list /
ForcedTransactionFailed event); event_inbox_root is written exactly once, after the loops, from
root_calculator.root(); validate_forced_tx returns Ok only through the ok-edges of parse_tx_bytes,
tx_is_valid_variant, relayed_tx_claimed_enough_max_gas and get_checked_tx; process_da runs only when
the relayer is enabled, and relayed transactions are executed through execute_transaction_and_commit
with both outcomes handled. (6) valid forced transactions are pushed into the list process_da returns and that list is never re-assigned inside the DA-height loop; neither process_da nor the node's RelayerPort::get_events adapter reorders or filters the events (the adapter returns the EventsHistory entry as stored).
"""
NOT_DECIDED = """The relayer's own contents per height (C29); Merkle arithmetic."""

REL = "fuel_core_types::services::relayer::Event"
ED = "fuel_core_executor::executor::ExecutionData"


def check(ctx):
    F = ctx.F
    with ctx.clause("1.range"):
        b = ctx.body_with(f"{EX}::process_da", "fuel_core_executor::ports::RelayerPort::get_events")
        rng = ctx.one_call(b, "core::ops::range::RangeInclusive::new")
        add = ctx.one_call(b, "u64::checked_add")
        ctx.const_arg("1.start-is-previous-plus-one", add, 1, 1)
        ctx.arg_origin("1.start-from-previous-da-height", add, 0, "call:fuel_core_types::blockchain::header::BlockHeader::da_height", depth=1)
        ctx.arg_origin("1.range-start", rng, 0, "call:u64::checked_add")
        ctx.arg_origin("1.range-end-is-block-da-height", rng, 1, "param:3")
        errs = b.error_blocks()
        bad, _ = ctx.ok_edges(add, polarity="bad")
        ctx.add("1.overflow-rejects", "REJECT", bool(bad) and all(b.path([ctx._edge_target(b, e)], b.return_blocks(), cut_blocks=errs) is None for e in bad),
                "previous_da_height + 1 overflow is an error", sites=[add.where()], site_key="ovf")
        prev = [c for c in ctx.table_ops("FuelBlocks", CR, reads=True) if c.body is b]
        ctx.expect_sites("1.previous-block-read", prev, exactly=1, what="FuelBlocks.get(previous height)")
        for c in prev:
            ctx.arg_origin("1.previous-height", c, 1, "call:fuel_types::numeric_types::BlockHeight::pred", depth=1)
            bad, _ = ctx.ok_edges(c, polarity="bad", extra_transparent=("core::option::Option::ok_or",))
            ctx.add("1.missing-previous-block-rejects", "REJECT", bool(bad) and all(b.path([ctx._edge_target(b, e)], b.return_blocks(), cut_blocks=errs) is None for e in bad),
                    "a missing previous block is an error", sites=[c.where()], site_key="prev")
        ge = ctx.one_call(b, "fuel_core_executor::ports::RelayerPort::get_events")
        ctx.arg_origin("1.events-of-loop-height", ge, 1, "call:core::iter::traits::iterator::Iterator::next", depth=1)
        nxt = [c for c in b.calls_to("core::iter::traits::iterator::Iterator::next") if atom_match(Origins(b, 0).atoms(c.args[0]), "call:core::ops::range::RangeInclusive::new")]
        ctx.expect_sites("1.height-loop", nxt, exactly=1, what="loop over the DA heights")
        some, _ = ctx.ok_edges(nxt[0])
        starts = [ctx._edge_target(b, e) for e in some]
        p = b.path(starts, [nxt[0].bb], cut_blocks=[ge.bb] + list(errs))
        ctx.add("1.every-height-fetched", "MPT", p is None, "the events of every DA height of the range are fetched (no height skipped)",
                sites=[ge.where()], site_key="each")

    with ctx.clause("2.events"):
        b = ctx.body_with(f"{EX}::process_da", "fuel_core_executor::ports::RelayerPort::get_events")
        errs = b.error_blocks()
        push = ctx.one_call(b, "fuel_merkle::binary::root_calculator::MerkleRootCalculator::push")
        ctx.arg_origin("2.root-fed-with-event-hash", push, 1, "call:fuel_core_types::services::relayer::Event::hash", depth=1)
        sws = ctx.enum_switches(b, REL)
        ctx.dispatch_total("2.event-dispatch", b, REL)
        ctx.dominated("2.hashed-before-dispatch", b, [bb for bb, _, _ in sws], by_blocks=[push], detail="every event contributes to the inbox root, whatever its kind")
        ev = [c for c in b.calls_to("core::iter::traits::iterator::Iterator::next") if atom_match(Origins(b, 0).atoms(c.args[0]), "call:fuel_core_executor::ports::RelayerPort::get_events")]
        ctx.expect_sites("2.event-loop", ev, exactly=1, what="loop over the events of a height")
        some, _ = ctx.ok_edges(ev[0])
        starts = [ctx._edge_target(b, e) for e in some]
        ctx.add("2.every-event-hashed", "MPT", b.path(starts, [ev[0].bb], cut_blocks=[push.bb] + list(errs)) is None,
                "every event of the loop is pushed into the root calculator", sites=[push.where()], site_key="hash")
        arms = ctx.match_arms(b, REL)
        ins = table_calls(ctx, b, "Messages", ("insert",))
        ctx.add("2.message-arm-inserts", "DISPATCH", bool(ins) and all(c.bb in arms.get("Message", set()) for c in ins), "Event::Message is inserted into Messages",
                sites=[c.where() for c in ins], site_key="msg")
        wrong = ctx.cmp_tests(b, "Ne", lhs="call:fuel_core_types::entities::relayer::message::Message::da_height", rhs="call:core::iter::traits::iterator::Iterator::next", depth=1)
        ctx.test_leads_to_error("2.wrong-height-message-rejects", b, wrong, truth=True, detail="a message reported under the wrong DA height is rejected")
        ctx.guarded("2.insert-only-matching-height", b, ins, wrong, truth=False)
        vf = ctx.one_call(b, f"{EX}::validate_forced_tx")
        ctx.add("2.transaction-arm-validates", "DISPATCH", vf.bb in arms.get("Transaction", set()), "Event::Transaction goes through validate_forced_tx",
                sites=[vf.where()], site_key="tx")
        okp = [c for c in b.calls_to("alloc::vec::Vec::push") if atom_match(Origins(b, 1).atoms(c.args[1]), f"call:{EX}::validate_forced_tx")]
        failp = event_pushes(b, "ForcedTransactionFailed")
        oke, _ = ctx.ok_edges(vf)
        bade, _ = ctx.ok_edges(vf, polarity="bad")
        p1 = b.path([ctx._edge_target(b, e) for e in oke], [ev[0].bb], cut_blocks=[c.bb for c in okp]) if oke and okp else [0]
        p2 = b.path([ctx._edge_target(b, e) for e in bade], [ev[0].bb], cut_blocks=[c.bb for c in failp]) if bade and failp else [0]
        ctx.add("2.valid-forced-tx-collected", "PAIR", p1 is None, "a valid forced transaction is returned for execution", sites=[c.where() for c in okp], site_key="ok")
        ctx.add("2.invalid-forced-tx-reported", "PAIR", p2 is None, "an invalid forced transaction is reported as ForcedTransactionFailed", sites=[c.where() for c in failp], site_key="bad")
        ctx.flows("2.collected-are-returned", vf, to_return=True, through_calls=("alloc::vec::Vec::push",))

    with ctx.clause("3.inbox-root"):
        b = ctx.body_with(f"{EX}::process_da", "fuel_core_executor::ports::RelayerPort::get_events")
        ws = [(bd, bb, s) for (k, bd, bb, s) in ctx.field_touches(ED, "event_inbox_root", CR, kinds=("write", "refmut"))]
        units = {bd.unit for bd, _, _ in ws}
        ctx.add("3.root-writers", "WMW", units <= {f"{EX}::process_da", f"{ED}::new"} and f"{EX}::process_da" in units, f"event_inbox_root written in {sorted(units)}",
                sites=sorted(units), site_key="w")
        here = [(bb, s) for bd, bb, s in ws if bd is b]
        ctx.expect_sites("3.single-root-write", [s.get("line") for _, s in here], exactly=1, what="event_inbox_root write in process_da")
        root = ctx.one_call(b, "fuel_merkle::binary::root_calculator::MerkleRootCalculator::root")
        for bb, s in here:
            at = Origins(b, 1).atoms(s["rv"]["op"]) if s["rv"]["k"] == "use" else (Origins(b, 1).atoms(s["call"].args[0]) if "call" in s else set())
            ctx.add("3.root-value", "PROV", atom_match(at, "call:fuel_merkle::binary::root_calculator::MerkleRootCalculator::root"),
                    "event_inbox_root = root_calculator.root()", sites=[str(s.get("line"))], site_key="v")
        push = ctx.one_call(b, "fuel_merkle::binary::root_calculator::MerkleRootCalculator::push")
        ctx.add("3.root-after-all-events", "ORDER", b.path([root.target], [push.bb]) is None, "the root is taken after all events were pushed",
                sites=[root.where()], site_key="order")
        ctx.must_pass("3.root-always-written", b, [root])
        rootc = b.calls_to("fuel_merkle::binary::root_calculator::MerkleRootCalculator::new")
        ctx.expect_sites("3.single-calculator", rootc, exactly=1, what="MerkleRootCalculator::new (one calculator for the whole range)")
        hl = [c for c in b.calls_to("core::iter::traits::iterator::Iterator::next")]
        ctx.add("3.calculator-outside-loops", "ORDER", all(b.path([c.target], [rootc[0].bb]) is None for c in hl), "the calculator is created once, before the loops",
                sites=[rootc[0].where()], site_key="calc")

    with ctx.clause("4.validate_forced_tx"):
        b = F.unit(f"{EX}::validate_forced_tx").root
        oks = ctx.ok_return_blocks(b)
        prev = None
        for name in ("parse_tx_bytes", "tx_is_valid_variant", "relayed_tx_claimed_enough_max_gas", "get_checked_tx"):
            c = ctx.one_call(b, f"{EX}::{name}")
            ctx.after_ok(f"4.ok-only-after-{name}", c, oks)
            if prev is not None:
                ctx.after_ok(f"4.{name}-after-{prev.name}", prev, [c])
            prev = c
        ctx.only_callers("4.validate_forced_tx-callers", f"{EX}::validate_forced_tx", [f"{EX}::process_da"], CR)

    with ctx.clause("5.entry"):
        b = F.unit(f"{EX}::get_relayed_txs").root
        pd = ctx.one_call(b, f"{EX}::process_da")
        en = ctx.call_tests(b, "fuel_core_executor::ports::RelayerPort::enabled")
        ctx.guarded("5.only-if-relayer-enabled", b, [pd], en, truth=True)
        ctx.only_callers("5.process_da-callers", f"{EX}::process_da", [f"{EX}::get_relayed_txs"], CR)
        rb = F.unit(f"{EX}::process_relayed_txs").root
        etc = ctx.one_call(rb, f"{EX}::execute_transaction_and_commit")
        bade, _ = ctx.ok_edges(etc, polarity="bad")
        failp = event_pushes(rb, "ForcedTransactionFailed")
        nxt = rb.calls_to("core::iter::traits::iterator::Iterator::next")
        p = rb.path([ctx._edge_target(rb, e) for e in bade], [c.bb for c in nxt], cut_blocks=[c.bb for c in failp]) if bade and failp else [0]
        ctx.add("5.failed-relayed-tx-reported", "PAIR", p is None, "a forced transaction that fails to execute is reported", sites=[c.where() for c in failp], site_key="rel")
        l1 = F.unit(f"{EX}::process_l1_txs").root
        g = ctx.one_call(l1, f"{EX}::get_relayed_txs")
        pr = ctx.one_call(l1, f"{EX}::process_relayed_txs")
        ctx.after_ok("5.relayed-executed-after-import", g, [pr])
        ctx.arg_origin("5.executes-the-imported-txs", pr, 1, f"call:{EX}::get_relayed_txs")
        ctx.arg_origin("5.da-height-from-header", g, 2, "field:fuel_core_types::blockchain::header::ApplicationHeader.da_height", depth=1)

    # -- 6. nothing collected is lost, nothing is reordered --
    with ctx.clause("6.accumulation-and-order"):
        b = ctx.body_with(f"{EX}::process_da", "fuel_core_executor::ports::RelayerPort::get_events")
        NEXT = "core::iter::traits::iterator::Iterator::next"
        ev = [c for c in b.calls_to(NEXT) if atom_match(Origins(b, 0).atoms(c.args[0]), "call:fuel_core_executor::ports::RelayerPort::get_events")]
        outer = [c for c in b.calls_to(NEXT) if c.bb in b.live and c not in ev and ev and b.path([c.target], [ev[0].bb]) is not None and b.path([ev[0].target], [c.bb]) is not None]
        ctx.expect_sites("6.height-loop", outer, exactly=1, what="loop over the DA heights of the range")
        vf = ctx.one_call(b, f"{EX}::validate_forced_tx")
        okp = [c for c in b.calls_to("alloc::vec::Vec::push") if atom_match(Origins(b, 1).atoms(c.args[1]), f"call:{EX}::validate_forced_tx")]
        ret = ctx.returned_locals(b)
        # the vector the valid transactions are pushed into is the one that is returned ...
        recv = set()
        for c in okp:
            recv |= set(ctx._referents(b, c.args[0]))
        ctx.add("6.collected-into-the-returned-list", "PROV", bool(recv) and recv <= ret, "valid forced transactions are pushed into the list that process_da returns",
                sites=[c.where() for c in okp], site_key="recv")
        # ... and that list is never re-assigned inside the height loop (it accumulates over the whole DA range)
        over = []
        if outer:
            h = outer[0]
            on_cycle = lambda bb: b.path([h.target], [bb]) is not None and b.path([bb], [h.bb]) is not None
            named = {l for l in ret if l != 0 and b.local_name(l)}
            for l in named:
                for d in b.defs.get(l, []):
                    dbb = d[1] if d[0] == "assign" else d[1].bb
                    whole = d[0] == "call" or not d[3].get("p")
                    if whole and dbb in b.live and on_cycle(dbb) and not (d[0] == "assign" and d[4].get("k") == "ref"):
                        over.append(f"{b.local_name(l)} reassigned at line {(d[4] if d[0] == 'assign' else {}).get('line') or b.blocks[dbb]['t'].get('line')}")
        ctx.add("6.collected-list-accumulates-over-the-range", "PAIR", not over,
                "the returned list of forced transactions is not overwritten per DA height" + (f": {sorted(set(over))} — the transactions of every height but the last are hashed into the inbox root but never executed nor reported" if over else ""),
                sites=[c.where() for c in okp], site_key="acc")
        REORDER = ("sort", "sort_by", "sort_by_key", "sort_unstable", "sort_unstable_by", "sort_unstable_by_key", "sort_by_cached_key", "reverse", "rev", "retain", "dedup", "dedup_by",
                   "dedup_by_key", "swap", "rotate_left", "rotate_right", "shuffle", "drain", "truncate", "swap_remove", "select_nth_unstable")
        ro = [c for x in F.unit(f"{EX}::process_da").bodies for c in x.calls if c.bb in x.live and c.name in REORDER]
        ctx.expect_sites("6.process_da-keeps-relayer-order", ro, exactly=0, what="reordering / filtering of the events in process_da (the inbox root is defined over the relayer's order)")
        ctx.arg_origin("6.events-iterated-as-returned-by-the-port", ev[0], 0, "call:fuel_core_executor::ports::RelayerPort::get_events", depth=0) if ev else None
        # the node's RelayerPort adapter hands the stored events on unchanged
        aus = F.find_units("<* as fuel_core_executor::ports::RelayerPort>::get_events", "fuel_core")
        ctx.expect_sites("6.adapter-impls", [u.q for u in aus], at_least=1, what="RelayerPort::get_events implementations in fuel_core")
        for u in aus:
            bad = [c for x in u.bodies for c in x.calls if c.bb in x.live and c.name in REORDER + ("push", "insert", "remove", "pop", "extend", "append", "filter", "skip", "take", "step_by")]
            ctx.add(f"6.adapter-returns-stored-events-unchanged", "PROV", not bad, f"{u.q.split(' as ')[0].lstrip('<').split('::')[-1]}::get_events returns the EventsHistory entry as stored" +
                    (f"; but calls {[c.name + ' (' + c.where() + ')' for c in bad]} on it: the order / set of events seen by the executor differs from the relayer's" if bad else ""),
                    sites=[c.where() for c in bad] or [u.root.file], site_key=u.root.impl_self or u.q)
            gets = [c for x in u.bodies for c in x.calls if c.bb in x.live and c.name == "get" and c.path.startswith("fuel_storage::")]
            ctx.add("6.adapter-reads-events-history", "PROV", len(gets) == 1 and any("EventsHistory" in t for t in gets[0].targs + [str(gets[0].self_ty)]),
                    "the events come from EventsHistory at the requested height", sites=[c.where() for c in gets], site_key=(u.root.impl_self or u.q) + ":get")
