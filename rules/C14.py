"""C14 — sparse Merkle roots always match the table contents (pairing only; DESIGN §7 C14)."""
from core import AnchorMissing, Origins, atom_match

LEVEL = "other"
EXPLANATION = """
Pairing clauses of C14 in fuel_core_storage::blueprint::sparse::Sparse, for all paths: (1) every
single-entry mutation pairs the value-column operation with the tree operation on the same key bytes:
put / replace -> insert_into_tree (with the encoded value that was written), take / delete ->
remove_from_tree, on every success path; (2) insert_into_tree loads the tree at the root recorded for
the primary key of the entry, inserts (key, value) and records the new root under the same primary key;
remove_from_tree deletes the key and either records the new root or, when the tree became empty,
removes the metadata entry; both use the primary key computed from the entry's key; (3) batch
operations (init / insert / remove) write the value column, the tree (nodes / tree updates) and the
metadata entry of the primary key on every success path that has items; init refuses an already
initialised primary key. (4) batch insert / remove: every element of the batch reaches the tree update and the tree loop and the value-column write consume the one encoded set.
"""
NOT_DECIDED = """Root values; batches spanning several primary keys (the batch operations take the primary
key of the first element — API contract, noted, not judged)."""

CR = ["fuel_core_storage"]
SP = "fuel_core_storage::blueprint::sparse::Sparse"
BM = "fuel_core_storage::blueprint::BlueprintMutate"
SB = "fuel_core_storage::blueprint::SupportsBatching"
KVM = "fuel_core_storage::kv_store::KeyValueMutate"
TREE = "fuel_merkle::sparse::merkle_tree::MerkleTree"
INS = f"{SP}::insert_into_tree"
REM = f"{SP}::remove_from_tree"


def check(ctx):
    F = ctx.F
    with ctx.clause("1.single-entry-pairing"):
        methods = {m["n"] for m in F.trait(BM)["methods"]}
        ctx.add("1.mutate-trait-methods", "COUNT", methods == {"put", "replace", "take", "delete"}, f"BlueprintMutate methods {sorted(methods)}", sites=sorted(methods), site_key="m")
        for m, kv, tree in (("put", f"{KVM}::put", INS), ("replace", f"{KVM}::replace", INS), ("take", f"{KVM}::take", REM), ("delete", f"{KVM}::delete", REM)):
            b = F.units(f"<{SP} as {BM}>::{m}", crate="fuel_core_storage")[0].root
            kc = ctx.one_call(b, kv)
            tc = b.calls_to(tree)
            ctx.expect_sites(f"1.{m}-tree-op", tc, exactly=1, what=tree.rsplit("::", 1)[-1])
            ctx.paired(f"1.{m}-column-then-tree", kc, tc, on="ok", detail=f"{m}: the value column and the tree are updated together")
            ctx.must_pass(f"1.{m}-always-updates-tree", b, tc)
            wrong = b.calls_to(INS if tree == REM else REM)
            ctx.expect_sites(f"1.{m}-no-opposite-tree-op", wrong, exactly=0, what="opposite tree operation")
            for c in tc:
                o = Origins(b, 2)
                kb_col = o.atoms(kc.args[1])
                kb_tree = o.atoms(c.args[2])
                same = atom_match(kb_col, "call:fuel_core_storage::codec::Encoder::as_bytes") and atom_match(kb_tree, "call:fuel_core_storage::codec::Encoder::as_bytes")
                ctx.add(f"1.{m}-same-key-bytes", "PROV", same, "the column and the tree are keyed by the same encoded key", sites=[c.where()], site_key=m)
                if tree == INS:
                    ctx.arg_origin(f"1.{m}-tree-gets-written-value", c, 3, "call:fuel_core_storage::codec::Encode::encode_as_value", depth=2)
                    ctx.arg_origin(f"1.{m}-column-gets-same-value", kc, 3, "call:fuel_core_storage::codec::Encode::encode_as_value", depth=2)
        ctx.only_callers("1.insert_into_tree-callers", INS, [f"<{SP} as {BM}>::put", f"<{SP} as {BM}>::replace"], CR, min_sites=2)
        ctx.only_callers("1.remove_from_tree-callers", REM, [f"<{SP} as {BM}>::take", f"<{SP} as {BM}>::delete"], CR, min_sites=2)

    with ctx.clause("2.tree-functions"):
        PK = "fuel_core_storage::blueprint::sparse::PrimaryKey::primary_key"
        ib = ctx.body_with(INS, f"{TREE}::insert")
        ld = ctx.one_call(ib, f"{TREE}::load")
        ti = ctx.one_call(ib, f"{TREE}::insert")
        ws = [c for c in ib.calls if c.bb in ib.live and c.path == "fuel_storage::StorageMut::insert"]
        ctx.expect_sites("2.insert-metadata-write", ws, exactly=1, what="Metadata.insert(primary_key, new root)")
        ctx.arg_origin("2.insert-load-at-recorded-root", ld, 1, "call:fuel_core_storage::tables::merkle::SparseMerkleMetadata::root", depth=1)
        gets = [c for c in ib.calls if c.bb in ib.live and c.path in ("fuel_storage::StorageMut::get", "fuel_storage::StorageRef::get")]
        for c in gets + ws:
            ctx.arg_origin(f"2.insert-metadata-keyed-by-primary-key-bb{c.bb}", c, 1, f"call:{PK}", depth=1)
        for c in ws:
            ctx.arg_origin("2.insert-records-new-root", c, 2, f"call:{TREE}::root", depth=2)
            ctx.dominated("2.insert-root-after-tree-insert", ib, [c], by_blocks=[ti])
            ctx.must_pass("2.insert-always-records-root", ib, [c])
        ctx.arg_origin("2.primary-key-of-entry", ctx.one_call(ib, PK), 0, "param:2", depth=0)
        rb = ctx.body_with(REM, f"{TREE}::delete")
        td = ctx.one_call(rb, f"{TREE}::delete")
        rws = [c for c in rb.calls if c.bb in rb.live and c.path in ("fuel_storage::StorageMut::insert", "fuel_storage::StorageMut::remove")]
        ctx.expect_sites("2.remove-metadata-updates", rws, exactly=2, what="Metadata.remove (empty tree) / Metadata.insert (new root)")
        empty = ctx.rel_tests(rb, "Eq")
        rmv = [c for c in rws if c.name == "remove"]
        insr = [c for c in rws if c.name == "insert"]
        ctx.guarded("2.empty-tree-removes-metadata", rb, rmv, empty, truth=True)
        ctx.guarded("2.non-empty-tree-records-root", rb, insr, empty, truth=False)
        p = rb.path([td.target], rb.return_blocks(), cut_blocks=[c.bb for c in rws] + list(rb.error_blocks()))
        ctx.add("2.remove-always-updates-metadata", "PAIR", p is None, "after a tree deletion the metadata is always updated", sites=[c.where() for c in rws], site_key="rm")
        for c in rws:
            ctx.arg_origin(f"2.remove-metadata-keyed-by-primary-key-bb{c.bb}", c, 1, f"call:{PK}", depth=1)

    with ctx.clause("3.batch"):
        bmeth = {m["n"] for m in F.trait(SB)["methods"]}
        ctx.add("3.batch-trait-methods", "COUNT", bmeth == {"init", "insert", "remove"}, f"SupportsBatching methods {sorted(bmeth)}", sites=sorted(bmeth), site_key="b")
        for m in ("init", "insert", "remove"):
            u = F.units(f"<{SP} as {SB}>::{m}", crate="fuel_core_storage")[0]
            b = u.root
            bw = b.calls_to("fuel_core_storage::kv_store::BatchOperations::batch_write")
            meta = [c for c in b.calls if c.bb in b.live and c.path in ("fuel_storage::StorageMut::insert", "fuel_storage::StorageMut::remove")]
            ctx.expect_sites(f"3.{m}-value-column-batch", bw, at_least=1, what="batch_write of the value column")
            ctx.expect_sites(f"3.{m}-metadata-update", meta, at_least=1, what="metadata update of the primary key")
            # after the first batch_write every success path updates the metadata
            first = sorted(bw, key=lambda c: c.bb)[0]
            p = b.path([first.target], b.return_blocks(), cut_blocks=[c.bb for c in meta] + list(b.error_blocks()))
            ctx.add(f"3.{m}-column-write-then-metadata", "PAIR", p is None, f"batch {m}: once the value column is written the root of the primary key is updated",
                    sites=[c.where() for c in meta], site_key=m)
            for c in meta:
                ctx.arg_origin(f"3.{m}-metadata-keyed-by-primary-key-bb{c.bb}", c, 1, "call:fuel_core_storage::blueprint::sparse::PrimaryKey::primary_key", depth=1)
        ib = F.units(f"<{SP} as {SB}>::init", crate="fuel_core_storage")[0].root
        ck = ctx.value_tests(ib, ["call:fuel_storage::StorageMut::contains_key", "call:fuel_storage::StorageRef::contains_key"])
        ctx.test_leads_to_error("3.init-refuses-initialised-key", ib, ck, truth=True)
        bws = ib.calls_to("fuel_core_storage::kv_store::BatchOperations::batch_write")
        ctx.expect_sites("3.init-writes-values-and-nodes", bws, exactly=2, what="batch_write(value column) + batch_write(nodes)")

    # -- 4. batch insert / remove: the tree sees every element the value column sees --
    with ctx.clause("4.batch-tree-agrees-with-column"):
        for m, tree_op in (("insert", f"{TREE}::insert"), ("remove", f"{TREE}::delete")):
            u = F.units(f"<{SP} as {SB}>::{m}", crate="fuel_core_storage")[0]
            b = u.root
            ops = [c for c in b.calls if c.bb in b.live and c.is_path(tree_op)]
            ctx.expect_sites(f"4.{m}-tree-update", ops, exactly=1, what=f"tree.{tree_op.rsplit('::', 1)[-1]}(key, ..) in the batch loop")
            if not ops:
                continue
            op = ops[0]
            loops = [c for c in b.calls_to("core::iter::traits::iterator::Iterator::next") if c.bb in b.live and b.path([c.target], [op.bb]) is not None and b.path([op.target], [c.bb]) is not None]
            ctx.expect_sites(f"4.{m}-batch-loop", loops, exactly=1, what="loop over the encoded batch")
            if not loops:
                continue
            nx = loops[0]
            some, _ = ctx.ok_edges(nx)
            starts = [ctx._edge_target(b, e) for e in some]
            p = b.path(starts, [nx.bb], cut_blocks=[op.bb] + list(b.error_blocks()))
            ctx.add(f"4.{m}-every-element-updates-the-tree", "MPT", p is None,
                    f"batch {m}: every element of the batch reaches the tree update (an element skipped here is still written to / removed from the value column, so root and contents diverge)",
                    sites=[op.where()], site_key=m + ":each", witness=None if p is None else {"path": b.describe_path(p)})
            ctx.arg_origin(f"4.{m}-tree-key-from-loop-item", op, 1, "call:core::iter::traits::iterator::Iterator::next", depth=2)
            bw = sorted(b.calls_to("fuel_core_storage::kv_store::BatchOperations::batch_write"), key=lambda c: c.bb)
            if bw:
                # the column write and the tree loop consume the same collected set
                o = Origins(b, 2)
                col = {v for k, v in o.atoms(bw[0].args[2]) if k == "call" and str(v).endswith("collect_vec")}
                tre = {v for k, v in o.atoms(nx.args[0]) if k == "call" and str(v).endswith("collect_vec")}
                ctx.add(f"4.{m}-same-set-for-tree-and-column", "PROV", bool(col) and col == tre and len([c for c in b.calls if c.bb in b.live and c.name == "collect_vec"]) == 1,
                        f"batch {m}: the tree loop and the column write iterate the one encoded set", sites=[bw[0].where(), nx.where()], site_key=m + ":set")
