"""C21 — every transaction that leaves the pool without inclusion is reported (DESIGN §7 C21)."""
from rules import op_local
from core import AnchorMissing, Origins, atom_match
from rules import ITER_FLOW

LEVEL = "other"
EXPLANATION = """
Structural necessary conditions of C21 in fuel_core_txpool::pool::Pool, for all paths: every
result of Storage::remove_transaction_and_dependents_subtree (collision eviction, free-space
eviction, expiry / explicit removal, skipped-transaction dependents, preconfirmation-rollback
dependents) flows, through iterator adaptors only, into exactly the squeezed_out_txs report of
its function, and that report is reached on every path on which something was removed (it may be
skipped only by the is_empty test of the very list it would report); squeezed_out_txs is not
reachable from the inclusion paths (block extraction, committed / preconfirmed-committed
processing); expiry in the pool worker goes through remove_transactions_and_dependents. On a cycle through a removal that passes no report the reported list is never re-assigned (it accumulates); (4) in every report closure the tuple id and the status id are the removed entry's own id.
"""
NOT_DECIDED = """Exactly-once across different calls for the same id (needs the C16 invariant that an
id is pooled once); what the status manager does with the report."""

CR = ["fuel_core_txpool"]
POOL = "fuel_core_txpool::pool::Pool"
STORAGE = "fuel_core_txpool::storage::Storage"
SUB = f"{STORAGE}::remove_transaction_and_dependents_subtree"
SQ = "fuel_core_txpool::ports::TxStatusManager::squeezed_out_txs"


def check(ctx):
    F = ctx.F
    with ctx.clause("1.removals-are-reported"):
        sites = [c for c in ctx.call_sites(SUB, CR) if c.body.unit.startswith(POOL + "::")]
        ctx.expect_sites("1.subtree-removal-sites", sites, at_least=6, what="subtree removals in Pool",
                         detail="insert_inner x2, remove_transactions_and_dependents, remove_skipped_transaction, rollback_preconfirmed_transaction x2")
        seen = {}
        for c in sorted(sites, key=lambda c: (c.body.defq, c.bb)):
            b = c.body
            n = seen.setdefault(b.unit, 0)
            seen[b.unit] = n + 1
            tag = f"{b.unit.split('::')[-1]}-{n}"
            ctx.flows(f"1.flows-to-report-{tag}", c, to_call=SQ, through_calls=ITER_FLOW,
                      detail="the removed entries are what is reported as squeezed out")
            sq = b.calls_to(SQ)
            # the report may be skipped only through the is_empty test of the reported list
            skip_edges = []
            for sw, pol in ctx.call_tests(b, "alloc::vec::Vec::is_empty"):
                for lab in sw.edges_for_truth(True if pol else False):
                    skip_edges.append((sw.bb, lab))
            starts = [c.target]
            p = b.path(starts, b.return_blocks(), cut_blocks=[x.bb for x in sq], cut_edges=set(skip_edges)) if sq else [0]
            # a removal inside a loop whose report comes after the loop must *accumulate* the removed entries:
            # the reported list may not be (re)assigned on a cycle through the removal that passes no report
            cyc_reach = b.reach([c.target], cut_blocks=[x.bb for x in sq], cut_edges=set(skip_edges)) if sq and c.target is not None else set()
            overwritten = []
            if c.bb in cyc_reach:
                on_cycle = {x for x in cyc_reach if b.path([x], [c.bb], cut_blocks=[y.bb for y in sq], cut_edges=set(skip_edges)) is not None}
                bases = set()
                for q in sq:
                    work = [op_local(a) for a in q.args[1:] if op_local(a) is not None]
                    while work:
                        l = work.pop()
                        if l in bases:
                            continue
                        bases.add(l)
                        for d in b.defs.get(l, []):
                            if d[0] == "assign" and not d[3].get("p") and d[4]["k"] == "use" and op_local(d[4]["op"]) is not None and not d[4]["op"].get("p"):
                                work.append(op_local(d[4]["op"]))
                for l in bases:
                    for d in b.defs.get(l, []):
                        dbb = d[1] if d[0] == "assign" else d[1].bb
                        whole = (d[0] == "call") or not d[3].get("p")
                        plain_move = d[0] == "assign" and d[4]["k"] == "use" and op_local(d[4]["op"]) in bases
                        if whole and dbb in on_cycle and not plain_move and l != 0:
                            nm = (b.local_name(l) if hasattr(b, "local_name") else None) or f"_{l}"
                            overwritten.append(f"{nm} assigned in bb{dbb}")
            ctx.add(f"1.reported-list-accumulates-{tag}", "PAIR", not overwritten,
                    "removals of earlier loop iterations are not overwritten before the report" +
                    (f": the reported list is reassigned inside the removal loop ({', '.join(sorted(set(overwritten)))}) and reported only after it, so only the last iteration's removals are reported" if overwritten else ""),
                    sites=[c.where()], site_key=f"{b.unit}:{n}:acc")
            ctx.add(f"1.report-on-every-path-{tag}", "PAIR", p is None,
                    "after a subtree removal every path to the end of the function reports (or finds the list empty)",
                    sites=[c.where()], site_key=f"{b.unit}:{n}", witness=None if p is None else {"path": b.describe_path(p)})
    with ctx.clause("2.inclusion-paths-do-not-report"):
        for fn in ("extract_transactions_for_block", "process_committed_transactions", "process_preconfirmed_committed_transaction"):
            u = F.unit(f"{POOL}::{fn}")
            calls = u.calls_to(SQ, f"{POOL}::remove_transactions_and_dependents", SUB)
            ctx.expect_sites(f"2.{fn}-no-squeeze-out", calls, exactly=0, what=f"squeeze-out reports / cascading removals in {fn}")
        ctx.only_callers("2.squeezed-out-callers", SQ,
                         [f"{POOL}::insert_inner", f"{POOL}::remove_transactions_and_dependents", f"{POOL}::remove_skipped_transaction",
                          f"{POOL}::rollback_preconfirmed_transaction"], CR, min_sites=5)
    with ctx.clause("3.expiry"):
        PW = "fuel_core_txpool::pool_worker::PoolWorker"
        us = F.find_units(f"{PW}::remove_expired_transactions*", "fuel_core_txpool") or F.find_units(f"{PW}::*expired*", "fuel_core_txpool")
        if not us:
            raise AnchorMissing("PoolWorker::remove_expired_transactions")
        calls = [c for u in us for c in u.calls_to(f"{POOL}::remove_transactions_and_dependents")]
        ctx.expect_sites("3.expiry-cascades-and-reports", calls, at_least=1, what="expiry goes through remove_transactions_and_dependents")

    # -- 4. every report names the transaction that left the pool --
    with ctx.clause("4.report-names-the-removed-transaction"):
        SQN = "fuel_core_types::services::transaction_status::statuses::SqueezedOut::new"
        IDC = "fuel_core_types::services::txpool::PoolTransaction::id"
        n_cl = 0
        for fn in ("insert_inner", "remove_transactions_and_dependents", "remove_skipped_transaction", "rollback_preconfirmed_transaction"):
            u4 = F.unit(f"{POOL}::{fn}")
            for x in u4.bodies:
                news = [c for c in x.calls if c.bb in x.live and c.is_path(SQN)]
                if not news or not x.is_closure_like():
                    continue
                n_cl += 1
                tag = f"{fn}-{x.defq.rsplit('::', 1)[-1]}"
                o4 = Origins(x, 1)
                for c in news:
                    ctx.add(f"4.{tag}-status-carries-own-id", "PROV", atom_match(o4.atoms(c.args[1]), f"call:{IDC}") and not any(k == "upvar" for k, v in o4.atoms(c.args[1])),
                            "the SqueezedOut status carries the id of the removed entry itself", sites=[c.where()], site_key=tag + ":st")
                tups = [s for bb, j, s in x.stmts() if bb in x.live and s["k"] == "assign" and s["pl"]["l"] == 0 and s["rv"]["k"] == "agg" and s["rv"].get("ak") == "tuple" and len(s["rv"].get("ops", [])) == 2]
                for s in tups:
                    at = o4.atoms(s["rv"]["ops"][0])
                    ctx.add(f"4.{tag}-reported-under-own-id", "PROV", atom_match(at, f"call:{IDC}") and not any(k == "upvar" for k, v in at),
                            "each removed transaction is reported under its own id (not under the id of the transaction that caused the removal: "
                            "its dependents would never be reported and the cause would be reported several times)", sites=[f"{x.file}:{s.get('line')}"], site_key=tag + ":id",
                            witness={"atoms": sorted(map(str, at))[:10]})
        ctx.add("4.report-closures", "COUNT", n_cl >= 5, f"{n_cl} closures build squeezed-out reports", sites=[str(n_cl)], site_key="n")
