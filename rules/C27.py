"""C27 — sync batching partitions every requested range exactly (DESIGN §7 C27)."""
from core import AnchorMissing, Origins, atom_match

LEVEL = "other"
EXPLANATION = """
Symbolic-bound clauses of C27 in fuel_core_sync::import::cache::Cache, for all paths:
(1) push_missing_chunks(current_height, height, ..) produces None(chunk_start..block_end) over the
stepped range (current_height..height); block_end is a chain of Ord::min over chunk_start + size that
includes the *gap bound* — the same parameter that is the upper bound of the stepped range (defect
D3: clamped only to the end of the whole request, fixed), and chunk_start is the stepped value;
(2) get_chunks: on a gap (`height != current_height`) the pending cached batch is flushed before the
missing chunks are emitted (order), the missing chunks go from current_height to the cached height,
current_height advances to height + 1 after every cached item, the pending batch is flushed and the
tail gap (current_height..end) is emitted after the loop, with end = range.end + 1;
(3) handle_current_chunk matches (batch kind, item kind) without wildcard; in the same-kind arms the
batch is flushed exactly when range.len() == max_chunk_size and otherwise grows by one height and one
item; a kind change flushes the previous batch.
"""
NOT_DECIDED = """Equality "covers every height exactly once" is argued from the clauses, not mechanically proved."""

CR = ["fuel_core_sync"]
C = "fuel_core_sync::import::cache::Cache"
CDB = "fuel_core_sync::import::cache::CachedDataBatch"


def check(ctx):
    F = ctx.F
    with ctx.clause("1.missing-chunks-bounded-by-gap"):
        u = F.unit(f"{C}::push_missing_chunks")
        rb = u.root
        sb = ctx.one_call(rb, "core::iter::traits::iterator::Iterator::step_by")
        mp = ctx.one_call(rb, "core::iter::traits::iterator::Iterator::map")
        # the stepped range: Range { start: current_height (param 2), end: height (param 3) }
        rng = [s for bb, j, s in rb.stmts() if bb in rb.live and s["k"] == "assign" and s["rv"]["k"] == "agg" and s["rv"].get("adt") == "core::ops::range::Range"]
        ctx.expect_sites("1.stepped-range", [s.get("line") for s in rng], exactly=1, what="(current_height..height) range")
        o = Origins(rb, 0)
        end_param = None
        for s in rng:
            f = s["rv"]["fields"]
            st = o.atoms(s["rv"]["ops"][f.index("start")])
            en = o.atoms(s["rv"]["ops"][f.index("end")])
            ps = [a[1] for a in en if a[0] == "param"]
            end_param = ps[0] if len(ps) == 1 else None
            ctx.add("1.range-from-parameters", "PROV", ("param", 2) in st and end_param == 3, "the stepped range is (current_height..height) of the parameters",
                    sites=[str(s.get("line"))], site_key="range")
        cl = [a[1] for a in o.atoms(mp.args[1]) if a[0] == "closure"]
        cbs = [b for b in u.bodies if b.defq in cl]
        ctx.expect_sites("1.chunk-closure", [b.defq for b in cbs], exactly=1, what="closure building one missing chunk")
        cb = cbs[0]
        # which captured variable is the gap bound (the range's end parameter)?
        cap = None
        for bb, j, s in rb.stmts():
            if s["k"] == "assign" and s["rv"]["k"] == "agg" and s["rv"].get("ak") == "closure" and s["rv"].get("def") == cb.defq:
                for i, op in enumerate(s["rv"]["ops"]):
                    if ("param", end_param) in o.atoms(op):
                        cap = i
        gap_name = cb.upvars.get(cap) if cap is not None else None
        ctx.add("1.gap-bound-captured", "PROV", gap_name is not None, f"the closure captures the gap bound (upvar #{cap} = {gap_name})", sites=[cb.defq], site_key="cap")
        mins = cb.calls_to("core::cmp::Ord::min")
        aggs = [s for bb, j, s in cb.stmts() if bb in cb.live and s["k"] == "assign" and s["rv"]["k"] == "agg" and s["rv"].get("adt") == CDB and s["rv"]["variant"] == "None"]
        ctx.expect_sites("1.none-chunk", [s.get("line") for s in aggs], exactly=1, what="CachedDataBatch::None(chunk_start..block_end)")
        co = Origins(cb, 3, transparent=set(__import__("core").TRANSPARENT) | {"core::cmp::Ord::min"})
        for s in aggs:
            at = co.atoms(s["rv"]["ops"][0])
            rngs = [x for bb, j, x in cb.stmts() if x["k"] == "assign" and x["rv"]["k"] == "agg" and x["rv"].get("adt") == "core::ops::range::Range"]
            ok_end = False
            ok_start = False
            for r in rngs:
                f = r["rv"]["fields"]
                en = co.atoms(r["rv"]["ops"][f.index("end")])
                # every min in the chain contributes its second operand
                ext = set(en)
                for m in mins:
                    if atom_match(en, "call:core::cmp::Ord::min"):
                        ext |= Origins(cb, 0).atoms(m.args[1])
                ok_end = ok_end or (atom_match(ext, "call:core::cmp::Ord::min") and gap_name is not None and ("upvar", gap_name) in ext and
                                    atom_match(ext, "call:u32::saturating_add"))
                ok_start = ok_start or ("param", 2) in Origins(cb, 0).atoms(r["rv"]["ops"][f.index("start")])
            ctx.add("1.chunk-end-clamped-to-gap", "LINREL", ok_end, "block_end = min(chunk_start + size, height[, end]): a missing chunk never reaches past the gap it fills",
                    sites=[str(s.get("line"))], site_key="end")
            ctx.add("1.chunk-start-is-step", "LINREL", ok_start, "a missing chunk starts at the stepped height", sites=[str(s.get("line"))], site_key="start")
        add = ctx.one_call(cb, "u32::saturating_add")
        ctx.arg_origin("1.step-equals-chunk-size", sb, 1, "call:core::num::nonzero::NonZero::get", depth=0)
        ctx.arg_origin("1.chunk-size-added", add, 1, ["upvar:chunk_size", "call:core::num::nonzero::NonZero::get"], depth=0)

    with ctx.clause("2.get_chunks"):
        b = F.unit(f"{C}::get_chunks").root
        pmc = sorted(b.calls_to(f"{C}::push_missing_chunks"), key=lambda c: c.bb)
        ctx.expect_sites("2.missing-chunk-emissions", pmc, exactly=2, what="push_missing_chunks calls (gap inside the loop, tail after it)")
        nxt = ctx.one_call(b, "core::iter::traits::iterator::Iterator::next")
        inloop = [c for c in pmc if b.path([c.target], [nxt.bb]) is not None]
        tail = [c for c in pmc if c not in inloop]
        ctx.add("2.one-gap-one-tail", "COUNT", len(inloop) == 1 and len(tail) == 1, "one emission per gap inside the loop and one for the tail", sites=[c.where() for c in pmc], site_key="gt")
        gap = ctx.rel_tests(b, "Ne")
        ctx.guarded("2.gap-emission-only-on-gap", b, inloop, gap, truth=True)
        flush_tests = [c for c in b.calls_to(f"{CDB}::is_range_empty")]
        if inloop:
            g = inloop[0]
            edges = [(sw.bb, lab) for sw, pol in gap for lab in sw.edges_for_truth(True if pol else False)]
            p = b.path([ctx._edge_target(b, e) for e in edges], [g.bb], cut_blocks=[c.bb for c in flush_tests]) if edges else [0]
            ctx.add("2.pending-batch-flushed-before-gap", "ORDER", p is None, "the cached batch preceding a hole is emitted before the hole's missing chunks (order)",
                    sites=[g.where()], site_key="order", witness=None if p is None else {"path": b.describe_path(p)})
            pushes = b.calls_to("alloc::vec::Vec::push")
            after = b.reach([g.target], cut_blocks=[nxt.bb])
            ctx.add("2.no-flush-after-gap-emission", "ORDER", all(c.bb not in after for c in pushes), "no cached batch is emitted between the gap's chunks and the next cached item",
                    sites=[c.where() for c in pushes], site_key="order2")
            cur = Origins(b, 1).atoms(g.args[1])
            ctx.add("2.gap-from-current-height", "PROV", atom_match(cur, "call:core::ops::range::RangeInclusive::start") and atom_match(cur, "call:u32::saturating_add") and
                    all(ctx.same_local(b, g.args[1], t.args[1]) for t in tail),
                    "a gap starts at the running height (range start, then last cached height + 1), the same variable the tail starts from", sites=[g.where()], site_key="cur")
            ctx.arg_origin("2.gap-to-cached-height", g, 2, "call:core::iter::traits::iterator::Iterator::next", depth=0)
        for t in tail:
            cur_t = Origins(b, 1).atoms(t.args[1])
            ctx.add("2.tail-from-current-height", "PROV", atom_match(cur_t, "call:core::ops::range::RangeInclusive::start") and atom_match(cur_t, "call:u32::saturating_add"),
                    "the tail starts at the running height", sites=[t.where()], site_key="curt")
            ctx.arg_origin("2.tail-to-range-end", t, 2, "call:core::ops::range::RangeInclusive::end", depth=1)
            ctx.must_pass("2.tail-always-emitted", b, [t], exits="all")
            ctx.dominated("2.tail-after-final-flush", b, [t], by_blocks=[c for c in flush_tests if b.path([c.bb], [nxt.bb]) is None])
        adds = b.calls_to("u32::saturating_add")
        adv = [c for c in adds if b.path([c.target], [nxt.bb]) is not None and atom_match(Origins(b, 0).atoms(c.args[0]), "call:core::iter::traits::iterator::Iterator::next")]
        ctx.expect_sites("2.advance", adv, exactly=1, what="current_height = height + 1")
        for c in adds:
            ctx.const_arg(f"2.plus-one-bb{c.bb}", c, 1, 1)
        hc = ctx.one_call(b, f"{C}::handle_current_chunk")
        some, _ = ctx.ok_edges(nxt)
        starts = [ctx._edge_target(b, e) for e in some]
        ctx.add("2.every-cached-item-handled", "MPT", b.path(starts, [nxt.bb], cut_blocks=[hc.bb]) is None, "every cached item is appended to a batch", sites=[hc.where()], site_key="each")
        ctx.add("2.every-item-advances", "MPT", bool(adv) and b.path(starts, [nxt.bb], cut_blocks=[adv[0].bb]) is None, "current_height advances past every cached item",
                sites=[c.where() for c in adv], site_key="adv")

    with ctx.clause("3.handle_current_chunk"):
        b = F.unit(f"{C}::handle_current_chunk").root
        CD = "fuel_core_sync::import::cache::CachedData"
        ctx.dispatch_total("3.batch-kind-dispatch", b, CDB)
        ctx.dispatch_total("3.item-kind-dispatch", b, CD, min_switches=2)
        eq = ctx.rel_tests(b, "Eq")
        eq = [(sw, pol) for sw, pol in eq if not (b.blocks[sw.bb]["t"].get("exp") or "").startswith("debug_assert")]
        lens = [sw for sw, pol in eq if atom_match(_cmp_atoms(b, sw), "call:core::iter::traits::exact_size::ExactSizeIterator::len")]
        ctx.expect_sites("3.full-batch-tests", [f"bb{sw.bb}" for sw in lens], exactly=2, what="`range.len() == max_chunk_size` tests (headers, blocks)")
        pushes = b.calls_to("alloc::vec::Vec::push")
        flush = [c for c in pushes if atom_match(Origins(b, 0).atoms(c.args[0]), "param:4")]
        grow = [c for c in pushes if c not in flush]
        ctx.expect_sites("3.flushes", flush, exactly=4, what="chunks.push(..) (2 full-batch flushes + 2 kind changes)")
        ctx.expect_sites("3.grows", grow, exactly=2, what="batch.results.push(item)")
        for sw in lens:
            t_edge = [ctx._edge_target(b, (sw.bb, lab)) for lab in sw.edges_for_truth(True)]
            f_edge = [ctx._edge_target(b, (sw.bb, lab)) for lab in sw.edges_for_truth(False)]
            ctx.add(f"3.full-batch-flushes-bb{sw.bb}", "PAIR", b.path(t_edge, b.return_blocks(), cut_blocks=[c.bb for c in flush]) is None and
                    b.path(t_edge, [c.bb for c in grow]) is None, "a full batch is flushed and a new one is started", sites=[f"bb{sw.bb}"], site_key=f"t{sw.bb}")
            ctx.add(f"3.non-full-batch-grows-bb{sw.bb}", "PAIR", b.path(f_edge, b.return_blocks(), cut_blocks=[c.bb for c in grow]) is None and
                    b.path(f_edge, [c.bb for c in flush]) is None, "a non-full batch grows by one item and is not flushed", sites=[f"bb{sw.bb}"], site_key=f"f{sw.bb}")
        adds = b.calls_to("u32::saturating_add")
        for c in adds:
            ctx.const_arg(f"3.one-height-per-item-bb{c.bb}", c, 1, 1)
        ctx.only_callers("3.callers", f"{C}::handle_current_chunk", [f"{C}::get_chunks"], CR)
        ctx.only_callers("3.pmc-callers", f"{C}::push_missing_chunks", [f"{C}::get_chunks"], CR)


def _cmp_atoms(b, sw):
    from core import decode_bool_test
    o = Origins(b, 1)
    at = set()
    for t in decode_bool_test(b, o, sw.term["d"]):
        if t[0] == "cmp":
            at |= o.atoms(t[2]) | o.atoms(t[3])
    return at
