"""C19 — pool admission rejects invalid, duplicate and less-profitable transactions (DESIGN §7 C19)."""
from core import AnchorMissing, Origins, atom_match, CMP_CALLS

LEVEL = "other"
EXPLANATION = """
Structural necessary conditions of C19 in fuel_core_txpool, for all paths: (1) Pool::insert
reaches insert_inner only past the false edges of `is_spent_tx(id)` and `contains_tx(id)`, both
of whose true edges are error exits; (2) can_insert_transaction returns Ok only through the
ok-edge of each admission check (zero-gas test, already-pooled test, blacklist, blob existence,
validate_inputs, find_collisions, can_store_transaction, collision-is-dependency test,
check_collision_requirements, can_fit_into_pool); (3) GraphStorage::validate_inputs matches
Input without wildcard; under utxo validation a spent coin / message is rejected before the
database lookup, a database coin / message that does not match the input is rejected, an unknown
message is rejected, a pool-created coin goes through check_if_coin_input_can_spend_output whose
error propagates; (4) is_better_than_collision returns a strict `>` between tip()/max_gas() of
the new transaction and dependents_cumulative_tip / dependents_cumulative_gas of the collided
subtree, and check_collision_requirements rejects on its false result for each collision and on
`has_dependencies && len > 1`; (5) committed ids are recorded as spent for every id of a block
(spend_inputs_by_tx_id on every iteration of process_committed_transactions).
"""
NOT_DECIDED = """LRU capacity effects of SpentInputs (runtime size); numeric ratio values."""

CR = ["fuel_core_txpool"]
POOL = "fuel_core_txpool::pool::Pool"
STORAGE = "fuel_core_txpool::storage::Storage"
GS = "fuel_core_txpool::storage::graph::GraphStorage"
INPUT = "fuel_tx::transaction::types::input::Input"
SP = "fuel_core_txpool::spent_inputs::SpentInputs"
PS = "fuel_core_txpool::ports::TxPoolPersistentStorage"


def reject_on(ctx, oid, b, tests, truth, detail=""):
    ctx.test_leads_to_error(oid, b, tests, truth=truth, detail=detail)


def check(ctx):
    F = ctx.F
    # ---- 1. Pool::insert duplicate test ----------------------------------------------------------
    with ctx.clause("1.insert"):
        b = ctx.body_with(f"{POOL}::insert", f"{POOL}::insert_inner")
        inner = ctx.one_call(b, f"{POOL}::insert_inner")
        spent = ctx.call_tests(b, f"{SP}::is_spent_tx")
        ctx.guarded("1.not-already-spent-tx", b, [inner], spent, truth=False, detail="a committed / extracted tx id is not inserted again")
        reject_on(ctx, "1.spent-tx-rejects", b, spent, True)
        stored = ctx.value_tests(b, f"call:{PS}::contains_tx")
        ctx.guarded("1.not-in-database", b, [inner], stored, truth=False, detail="a tx id present in the database is not inserted")
        reject_on(ctx, "1.database-tx-rejects", b, stored, True)
        for c in b.calls_to(f"{SP}::is_spent_tx", f"{PS}::contains_tx"):
            ctx.arg_origin(f"1.{c.name}-of-this-tx", c, 1, "call:fuel_core_types::services::txpool::PoolTransaction::id")
        ctx.only_callers("1.insert_inner-callers", f"{POOL}::insert_inner", [f"{POOL}::insert"], CR)

    # ---- 2. can_insert_transaction --------------------------------------------------------------------
    with ctx.clause("2.can_insert_transaction"):
        b = ctx.body_with(f"{POOL}::can_insert_transaction", f"{STORAGE}::validate_inputs")
        oks = ctx.ok_return_blocks(b)
        ctx.expect_sites("2.ok-return", sorted(oks), exactly=1, what="Ok(..) return of can_insert_transaction")
        checks = {
            "blacklist": "fuel_core_txpool::config::BlackList::check_blacklisting",
            "blob-not-taken": f"{POOL}::check_blob_does_not_exist",
            "validate-inputs": f"{STORAGE}::validate_inputs",
            "find-collisions": "fuel_core_txpool::collision_manager::CollisionManager::find_collisions",
            "can-store": f"{STORAGE}::can_store_transaction",
            "collision-requirements": "fuel_core_txpool::pool::collisions::CollisionsExt::check_collision_requirements",
            "fits-into-pool": f"{POOL}::can_fit_into_pool",
        }
        for name, callee in checks.items():
            c = ctx.one_call(b, callee)
            ctx.after_ok(f"2.ok-only-after-{name}", c, oks, detail=f"admission requires {callee.rsplit('::', 1)[-1]} to succeed")
        zero = ctx.cmp_tests(b, "Eq", lhs="call:fuel_core_types::services::txpool::PoolTransaction::max_gas", rhs="const:0")
        ctx.guarded("2.nonzero-gas", b, oks, zero, truth=False)
        reject_on(ctx, "2.zero-gas-rejects", b, zero, True)
        pooled = ctx.call_tests(b, "std::collections::hash::map::HashMap::contains_key", arg_spec=f"field:{POOL}.tx_id_to_storage_id")
        ctx.guarded("2.not-already-pooled", b, oks, pooled, truth=False, detail="a pooled tx id is rejected")
        reject_on(ctx, "2.pooled-id-rejects", b, pooled, True)
        dep = ctx.call_tests(b, "std::collections::hash::set::HashSet::contains", arg_spec="call:fuel_core_txpool::storage::CheckedTransaction::all_dependencies")
        reject_on(ctx, "2.collision-is-dependency-rejects", b, dep, True, "a transaction may not collide with its own dependency")
        # the collisions checked are the ones found for this transaction
        cr = ctx.one_call(b, checks["collision-requirements"])
        ctx.arg_origin("2.requirements-on-found-collisions", cr, 0, f"call:{checks['find-collisions']}")
        vi = ctx.one_call(b, checks["validate-inputs"])
        ctx.arg_origin("2.validate-with-spent-inputs", vi, 4, f"field:{POOL}.spent_inputs")
        ctx.arg_origin("2.validate-with-extracted-outputs", vi, 3, f"field:{POOL}.extracted_outputs")

    # ---- 3. validate_inputs ------------------------------------------------------------------------------
    with ctx.clause("3.validate_inputs"):
        b = F.unit(f"<{GS} as {STORAGE}>::validate_inputs").root
        ctx.dispatch_total("3.input-dispatch", b, INPUT, detail="every input kind is validated")
        arms = ctx.match_arms(b, INPUT)
        for kind, variants, spent_fn, lookup, matches in (
            ("coin", ("CoinSigned", "CoinPredicate"), f"{SP}::is_spent_utxo", f"{PS}::utxo",
             "fuel_core_types::entities::coins::coin::CompressedCoin::matches_input"),
            ("message", ("MessageCoinSigned", "MessageCoinPredicate", "MessageDataSigned", "MessageDataPredicate"),
             f"{SP}::is_spent_message", f"{PS}::message", "fuel_core_types::entities::relayer::message::Message::matches_input"),
        ):
            sp = ctx.one_call(b, spent_fn)
            lk = ctx.one_call(b, lookup)
            mt = ctx.one_call(b, matches)
            for v in variants:
                ctx.add(f"3.{kind}-{v}-arm-validates", "DISPATCH", {sp.bb, lk.bb, mt.bb} <= arms.get(v, set()),
                        f"Input::{v} arm checks spent-ness, looks the {kind} up and compares it with the input",
                        sites=[sp.where(), lk.where(), mt.where()], site_key=v)
            st = ctx.call_tests(b, spent_fn)
            reject_on(ctx, f"3.{kind}-spent-rejects", b, st, True, f"a spent {kind} is rejected")
            ctx.guarded(f"3.{kind}-spent-check-before-lookup", b, [lk], st, truth=False)
            mtst = ctx.value_tests(b, f"call:{matches}")
            reject_on(ctx, f"3.{kind}-mismatch-rejects", b, mtst, False, f"input fields must agree with the stored {kind}")
            ctx.arg_origin(f"3.{kind}-matches-this-input", mt, 1, ["local:input", "call:core::iter::traits::iterator::Iterator::next"], depth=1)
            # database errors are errors
            bad, _ = ctx.ok_edges(lk, polarity="bad")
            errs = b.error_blocks()
            ctx.add(f"3.{kind}-db-error-rejects", "REJECT", bool(bad) and all(
                b.path([ctx._edge_target(b, e)], b.return_blocks(), cut_blocks=errs) is None for e in bad),
                f"a failing {kind} lookup rejects the transaction", sites=[lk.where()], site_key=kind)
        # unknown message is rejected (Ok(None) arm)
        lk = ctx.one_call(b, f"{PS}::message")
        okedges, _ = ctx.ok_edges(lk)  # Ok arm
        opt = ctx.discr_switches(b, "core::option::Option", f"call:{PS}::message")
        errs = b.error_blocks()
        none_t = [ctx._edge_target(b, (s.bb, lab)) for s in opt for lab in s.edge_for_value(0)]
        ctx.add("3.unknown-message-rejects", "REJECT", bool(none_t) and b.path(none_t, b.return_blocks(), cut_blocks=errs) is None,
                "a message that is not in the database is rejected", sites=[lk.where()], site_key="message-none")
        # pool-created coin: compatibility check error propagates
        cc = ctx.one_call(b, f"{GS}::check_if_coin_input_can_spend_output")
        bad, _ = ctx.ok_edges(cc, polarity="bad")
        ctx.add("3.pool-coin-mismatch-rejects", "REJECT", bool(bad) and all(
            b.path([ctx._edge_target(b, e)], b.return_blocks(), cut_blocks=errs) is None for e in bad),
            "an input that disagrees with the pool output it spends is rejected", sites=[cc.where()], site_key="pool-coin")
        cb = F.unit(f"{GS}::check_if_coin_input_can_spend_output").root
        nes = [c for c in cb.calls if c.bb in cb.live and c.path == "core::cmp::PartialEq::ne"]
        ctx.expect_sites("3.pool-coin-three-comparisons", nes, exactly=3, what="owner / amount / asset comparisons against the pool output")
        alln = ctx.rel_tests(cb, "Ne")
        ctx.expect_sites("3.pool-coin-three-tests", [f"bb{sw.bb}" for sw, _ in alln], exactly=3, what="tests on the three comparisons")
        reject_on(ctx, "3.pool-coin-field-mismatch-rejects", cb, alln, True)
        ctx.dispatch_total("3.pool-output-dispatch", cb, "fuel_tx::transaction::types::output::Output")

    # ---- 4. profitability --------------------------------------------------------------------------------------
    with ctx.clause("4.profitability"):
        b = F.unit("fuel_core_txpool::pool::collisions::is_better_than_collision").root
        cmps = [c for c in b.calls if c.bb in b.live and c.path in CMP_CALLS]
        ctx.expect_sites("4.single-comparison", cmps, exactly=1, what="ratio comparison in is_better_than_collision")
        c = cmps[0]
        rel = CMP_CALLS[c.path]
        o = Origins(b, 2)
        a0, a1 = o.atoms(c.args[0]), o.atoms(c.args[1])
        new_spec = lambda at: atom_match(at, "call:fuel_core_types::services::txpool::PoolTransaction::tip") and \
            atom_match(at, "call:fuel_core_types::services::txpool::PoolTransaction::max_gas")
        old_spec = lambda at: atom_match(at, "field:fuel_core_txpool::storage::StorageData.dependents_cumulative_tip") and \
            atom_match(at, "field:fuel_core_txpool::storage::StorageData.dependents_cumulative_gas")
        strict = (rel == "Gt" and new_spec(a0) and old_spec(a1)) or (rel == "Lt" and old_spec(a0) and new_spec(a1))
        ctx.add("4.strictly-better-than-subtree", "PROV", strict,
                "is_better_than_collision is `new tip/gas > collided subtree's cumulative tip/gas` (strict)",
                sites=[c.where()], site_key=b.defq, witness=None if strict else {"rel": rel, "lhs": sorted(map(str, a0))[:20], "rhs": sorted(map(str, a1))[:20]})
        ctx.flows("4.comparison-is-the-result", c, to_return=True)
        old_pure = not (atom_match(a1 if rel == "Gt" else a0, "call:fuel_core_types::services::txpool::PoolTransaction::tip"))
        ctx.add("4.collided-side-is-cumulative-only", "PROV", old_pure, "the collided side uses the subtree's cumulative values, not the root's own tip",
                sites=[c.where()], site_key=b.defq + ":pure")
        g = ctx.one_call(b, f"{STORAGE}::get")
        ctx.arg_origin("4.collided-entry-looked-up", g, 1, "param:2")
        rb = ctx.body_with("<std::collections::hash::map::HashMap as fuel_core_txpool::pool::collisions::CollisionsExt>::check_collision_requirements",
                           "fuel_core_txpool::pool::collisions::is_better_than_collision")
        better = ctx.value_tests(rb, "call:fuel_core_txpool::pool::collisions::is_better_than_collision")
        reject_on(ctx, "4.not-better-rejects", rb, better, False, "a collision that is not strictly less profitable rejects the newcomer")
        oks = ctx.ok_return_blocks(rb)
        ib = ctx.one_call(rb, "fuel_core_txpool::pool::collisions::is_better_than_collision")
        nxt = [c for c in rb.calls_to("core::iter::traits::iterator::Iterator::next")]
        some_edges = [e for n in nxt for e in ctx.ok_edges(n)[0]]
        starts = [ctx._edge_target(rb, e) for e in some_edges]
        ctx.add("4.every-collision-compared", "MPT", bool(starts) and rb.path(starts, [n.bb for n in nxt] + list(oks), cut_blocks=[ib.bb] + list(rb.error_blocks())) is None,
                "each collision of the loop is compared before the next one / before Ok", sites=[ib.where()], site_key=rb.defq)
        multi = ctx.cmp_tests(rb, "Gt", lhs="call:std::collections::hash::map::HashMap::len", rhs="const:1")
        reject_on(ctx, "4.dependent-with-several-collisions-rejects", rb, multi, True)

    # ---- 5. committed ids become spent -------------------------------------------------------------------------
    with ctx.clause("5.committed-ids-spent"):
        b = ctx.body_with(f"{POOL}::process_committed_transactions", f"{SP}::spend_inputs_by_tx_id")
        sp = b.calls_to(f"{SP}::spend_inputs_by_tx_id")
        nxt = [c for c in b.calls_to("core::iter::traits::iterator::Iterator::next")
               if atom_match(Origins(b, 1).atoms(c.args[0]), "param:2")]
        ctx.expect_sites("5.id-loop", nxt, exactly=1, what="loop over the committed tx ids")
        some_edges = [e for n in nxt for e in ctx.ok_edges(n)[0]]
        starts = [ctx._edge_target(b, e) for e in some_edges]
        ok = bool(starts) and bool(sp) and b.path(starts, [n.bb for n in nxt] + b.return_blocks(), cut_blocks=[c.bb for c in sp]) is None
        ctx.add("5.every-committed-id-spent", "MPT", ok,
                "every committed tx id (pooled or not) is recorded in the spent-inputs cache", sites=[c.where() for c in sp], site_key=b.defq)
        pb = ctx.body_with(f"{POOL}::process_preconfirmed_committed_transaction", f"{SP}::spend_inputs_by_tx_id")
        ctx.must_pass("5.preconfirmed-id-spent", pb, pb.calls_to(f"{SP}::spend_inputs_by_tx_id"), exits="all")
