"""C31 — peer slots and reputation are accounted correctly (DESIGN §7 C31)."""
from core import AnchorMissing, Origins, atom_match, place_fields

LEVEL = "other"
EXPLANATION = """
Structural necessary conditions of C31 in fuel_core_p2p::peer_manager, for all paths: (1) reserved
peers are never banned for reputation: update_app_score looks the peer up only in
non_reserved_connected_peers and its ban is reachable only on that lookup's Some edge;
handle_gossip_score_update bans only when reserved_peers.contains(peer) is false; these are the only
two ban sites; (2) score cap: PeerInfo.score is written only in update_app_score (value =
min(max_app_score, ..)), the decay and the constructor; (3) admission: non-reserved peers are
inserted only in handle_initial_connection and only past the false edge of `len >= max`, whose true
edge returns `true` (reject); reserved peers are inserted without a slot test; (4) slot-flag
symmetry: deny_new_peers fires when the size *after* the insert reaches the limit
(len_before + 1 == max, before the insert); allow_new_peers fires only when a non-reserved peer was
really removed (remove(..).is_some()) and the size *before* the removal had reached the limit
(len >= max or len == max, with len read before the removal and no `+ 1`); (5) allow/deny are called
only from those two functions.
"""
NOT_DECIDED = """libp2p-level connection limits (connection_tracker); numeric score values."""

CR = ["fuel_core_p2p"]
PM = "fuel_core_p2p::peer_manager::PeerManager"
NR = f"field:{PM}.non_reserved_connected_peers"
MAX = f"field:{PM}.max_non_reserved_peers"
CS = "fuel_core_p2p::peer_manager::ConnectionState"
BAN = "fuel_core_p2p::peer_manager::Punisher::ban_peer"


def check(ctx):
    F = ctx.F
    with ctx.clause("1.reserved-never-banned"):
        b = F.unit(f"{PM}::update_app_score").root
        gm = ctx.one_call(b, "std::collections::hash::map::HashMap::get_mut")
        at = Origins(b, 0).atoms(gm.args[0])
        ctx.add("1.score-lookup-in-non-reserved", "PROV", atom_match(at, NR) and not any(a[0] == "call" and "peer_table" in a[1] for a in at) and
                not atom_match(at, f"field:{PM}.reserved_connected_peers"),
                "update_app_score looks the peer up in non_reserved_connected_peers only", sites=[gm.where()], site_key="lookup",
                witness={"atoms": sorted(map(str, at))[:20]})
        bans = b.calls_to(BAN)
        ctx.expect_sites("1.app-score-ban", bans, exactly=1, what="ban in update_app_score")
        ctx.after_ok("1.ban-only-for-found-non-reserved", gm, bans, detail="only a connected non-reserved peer can be banned for its app score")
        low = ctx.cmp_tests(b, "Lt", lhs="call:f64::min", rhs="field:fuel_core_p2p::peer_manager::ScoreConfig.min_app_score_allowed")
        ctx.guarded("1.ban-only-below-minimum", b, bans, low, truth=True)
        gb = F.unit(f"{PM}::handle_gossip_score_update").root
        res = ctx.call_tests(gb, "std::collections::hash::set::HashSet::contains", arg_spec=f"field:{PM}.reserved_peers")
        ctx.guarded("1.gossip-ban-not-for-reserved", gb, gb.calls_to(BAN), res, truth=False)
        ctx.only_callers("1.ban-sites", BAN, [f"{PM}::update_app_score", f"{PM}::handle_gossip_score_update"], ["fuel_core_p2p"],
                         must=[f"{PM}::update_app_score", f"{PM}::handle_gossip_score_update"]) if False else None
        sites = [c for c in ctx.call_sites(BAN, CR) if "/peer_manager.rs" in c.body.file]
        ctx.add("1.ban-sites", "WMC", {c.body.unit for c in sites} == {f"{PM}::update_app_score", f"{PM}::handle_gossip_score_update"},
                f"ban_peer is called in the peer manager from {sorted(c.body.unit.split('::')[-1] for c in sites)}", sites=[c.where() for c in sites], site_key="ban")

    with ctx.clause("2.score-cap"):
        PI = "fuel_core_p2p::peer_manager::PeerInfo"
        ctx.only_field_writers("2.score-writers", PI, "score", [f"{PM}::update_app_score", f"{PM}::batch_update_score_with_decay", f"{PI}::new"], CR,
                               kinds=("write", "refmut"), min_sites=2)
        b = F.unit(f"{PM}::update_app_score").root
        ws = [(bb, s) for (k, bd, bb, s) in ctx.field_touches(PI, "score", CR, kinds=("write",)) if bd is b]
        ctx.expect_sites("2.score-write", [s.get("line") for _, s in ws], exactly=1, what="score write in update_app_score")
        mn = ctx.one_call(b, "f64::min")
        for bb, s in ws:
            at = Origins(b, 0).atoms(s["rv"]["op"]) if s["rv"]["k"] == "use" else set()
            ctx.add("2.score-is-clamped", "CLAMP", atom_match(at, "call:f64::min"), "the new score is min(max_app_score, score + delta)", sites=[str(s.get("line"))], site_key="clamp")
        a0, a1 = Origins(b, 0).atoms(mn.args[0]), Origins(b, 0).atoms(mn.args[1])
        ctx.add("2.clamp-bound-is-max-score", "CLAMP", atom_match(a0 | a1, "field:fuel_core_p2p::peer_manager::ScoreConfig.max_app_score"),
                "the clamp bound is score_config.max_app_score", sites=[mn.where()], site_key="bound")

    with ctx.clause("3.admission"):
        b = F.unit(f"{PM}::handle_initial_connection").root
        ins = [c for c in b.calls_to("std::collections::hash::map::HashMap::insert") if atom_match(Origins(b, 0).atoms(c.args[0]), NR)]
        ctx.expect_sites("3.non-reserved-insert", ins, exactly=1, what="insert into non_reserved_connected_peers")
        full = ctx.cmp_tests(b, "Ge", lhs="call:std::collections::hash::map::HashMap::len", rhs=MAX)
        full = [(sw, pol) for sw, pol in full if not atom_match(_lhs_atoms(b, sw), "call:usize::saturating_add")]
        ctx.guarded("3.insert-only-with-free-slot", b, ins, full, truth=False, detail="a non-reserved peer is admitted only while len < max")
        trues = b.const_return_blocks(1)
        ok = bool(full)
        for sw, pol in full:
            for lab in sw.edges_for_truth(True if pol else False):
                t = ctx._edge_target(b, (sw.bb, lab))
                if b.path([t], b.return_blocks(), cut_blocks=trues) is not None:
                    ok = False
        ctx.add("3.full-returns-disconnect", "REJECT", ok, "when all slots are taken the peer is reported for disconnection (returns true)",
                sites=[f"bb{sw.bb}" for sw, _ in full], site_key="full")
        for c in b.calls_to("std::collections::hash::map::HashMap::len"):
            ctx.arg_origin("3.len-of-non-reserved", c, 0, NR, depth=0)
        allins = set()
        for body in F.crate("fuel_core_p2p")["bodies"]:
            if PM in body.adts_touched and "/peer_manager.rs" in body.file:
                for (fld, m) in ctx.field_ops(body, body.live, PM):
                    if fld == "non_reserved_connected_peers" and m in ("insert", "entry", "extend"):
                        allins.add(body.unit)
        ctx.add("3.only-admission-inserts", "WMW", allins == {f"{PM}::handle_initial_connection"}, f"non_reserved_connected_peers grows only in {sorted(allins)}",
                sites=sorted(allins), site_key="ins")

    with ctx.clause("4.slot-flag"):
        ib = F.unit(f"{PM}::handle_initial_connection").root
        iu = F.unit(f"{PM}::handle_initial_connection")
        deny_cl = [x for x in iu.bodies if x.calls_to(f"{CS}::deny_new_peers")]
        ctx.expect_sites("4.deny-closure", [x.defq for x in deny_cl], exactly=1, what="closure calling deny_new_peers")
        wr = [c for c in ib.calls_to("fuel_core_services::seqlock::SeqLockWriter::write") if deny_cl and atom_match(Origins(ib, 0).atoms(c.args[1]), f"closure:{deny_cl[0].defq}")]
        ctx.expect_sites("4.deny-site", wr, exactly=1, what="connection_state_writer.write(deny)")
        last = ctx.cmp_tests(ib, "Eq", lhs="call:usize::saturating_add", rhs=MAX)
        ctx.guarded("4.deny-when-last-slot-taken", ib, wr, last, truth=True, detail="deny fires when len_before + 1 == max")
        for c in ib.calls_to("usize::saturating_add"):
            ctx.const_arg("4.deny-plus-one", c, 1, 1)
            ctx.arg_origin("4.deny-len", c, 0, "call:std::collections::hash::map::HashMap::len", depth=0)
        ins = [c for c in ib.calls_to("std::collections::hash::map::HashMap::insert") if atom_match(Origins(ib, 0).atoms(c.args[0]), NR)]
        lens = ib.calls_to("std::collections::hash::map::HashMap::len")
        ctx.add("4.deny-len-before-insert", "ORDER", all(ib.path([i.target], [l.bb]) is None for i in ins for l in lens) and bool(lens),
                "the size used for deny is read before the insert", sites=[l.where() for l in lens], site_key="order-deny")
        # every insert that takes the last slot passes the deny
        edges = [(sw.bb, lab) for sw, pol in last for lab in sw.edges_for_truth(True if pol else False)]
        p = ib.path([ctx._edge_target(ib, e) for e in edges], [c.bb for c in ins], cut_blocks=[c.bb for c in wr]) if edges and wr else [0]
        ctx.add("4.last-slot-always-denies", "PAIR", p is None, "taking the last slot always closes admission", sites=[c.where() for c in wr], site_key="deny-pair")

        db = F.unit(f"{PM}::handle_peer_disconnect").root
        du = F.unit(f"{PM}::handle_peer_disconnect")
        allow_cl = [x for x in du.bodies if x.calls_to(f"{CS}::allow_new_peers")]
        ctx.expect_sites("4.allow-closure", [x.defq for x in allow_cl], exactly=1, what="closure calling allow_new_peers")
        aw = [c for c in db.calls_to("fuel_core_services::seqlock::SeqLockWriter::write") if allow_cl and atom_match(Origins(db, 0).atoms(c.args[1]), f"closure:{allow_cl[0].defq}")]
        ctx.expect_sites("4.allow-site", aw, exactly=1, what="connection_state_writer.write(allow)")
        rem = [c for c in db.calls_to("std::collections::hash::map::HashMap::remove") if atom_match(Origins(db, 0).atoms(c.args[0]), NR)]
        ctx.expect_sites("4.non-reserved-remove", rem, exactly=1, what="remove from non_reserved_connected_peers")
        removed = ctx.value_tests(db, "call:std::collections::hash::map::HashMap::remove")
        removed = [(sw, pol) for sw, pol in removed if rem and db.path([rem[0].bb], [sw.bb]) is not None and db.path([sw.bb], [c.bb for c in aw]) is not None]
        ctx.guarded("4.allow-only-if-a-peer-left", db, aw, removed, truth=True,
                    detail="a slot is advertised only when a connected non-reserved peer was really removed")
        was_full = []
        for rel in ("Ge", "Eq"):
            for sw, pol in ctx.cmp_tests(db, rel, lhs="call:std::collections::hash::map::HashMap::len", rhs=MAX):
                la = _lhs_atoms(db, sw)
                if not atom_match(la, ["call:usize::saturating_add", "call:usize::checked_add", "call:usize::saturating_sub", "bin:Add", "bin:Sub", "bin:AddWithOverflow"]):
                    was_full.append((sw, pol))
        ctx.guarded("4.allow-only-from-full", db, aw, was_full, truth=True,
                    detail="allow fires when the size before the removal had reached the limit (the state in which deny was issued)")
        lens = db.calls_to("std::collections::hash::map::HashMap::len")
        ctx.add("4.allow-len-before-remove", "ORDER", bool(lens) and all(db.path([r.target], [l.bb]) is None for r in rem for l in lens),
                "the size used for allow is read before the removal", sites=[l.where() for l in lens], site_key="order-allow")
        # from the full state a real removal always re-opens admission
        e1 = [(sw.bb, lab) for sw, pol in was_full for lab in sw.edges_for_truth(False if pol else True)]
        e2 = [(sw.bb, lab) for sw, pol in removed for lab in sw.edges_for_truth(False if pol else True)]
        p = db.path([rem[0].target], db.return_blocks(), cut_blocks=[c.bb for c in aw], cut_edges=set(e1) | set(e2)) if rem and aw else [0]
        ctx.add("4.full-and-removed-always-allows", "PAIR", p is None, "when the set was full and a peer left, admission is always re-opened",
                sites=[c.where() for c in aw], site_key="allow-pair")

    with ctx.clause("5.flag-callers"):
        ctx.only_callers("5.allow-callers", f"{CS}::allow_new_peers", [f"{PM}::handle_peer_disconnect"], CR)
        ctx.only_callers("5.deny-callers", f"{CS}::deny_new_peers", [f"{PM}::handle_initial_connection"], CR)
        units = {bd.unit for (k, bd, bb, s) in ctx.field_touches(CS, "peers_allowed", CR, kinds=("write", "refmut"))}
        ctx.add("5.flag-writers", "WMW", units <= {f"{CS}::allow_new_peers", f"{CS}::deny_new_peers", f"{CS}::new"} and len(units) >= 2,
                f"peers_allowed written in {sorted(units)}", sites=sorted(units), site_key="flag")


def _lhs_atoms(b, sw):
    """atoms of both operands of the comparison tested by switch sw (depth 0)"""
    from core import decode_bool_test
    o = Origins(b, 0)
    at = set()
    for t in decode_bool_test(b, o, sw.term["d"]):
        if t[0] == "cmp":
            at |= o.atoms(t[2]) | o.atoms(t[3])
    return at
