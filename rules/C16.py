"""C16 — the pool never holds conflicting transactions; accounting is exact (DESIGN §7 C16)."""
from core import AnchorMissing, Origins, atom_match

LEVEL = "other"
EXPLANATION = """
Structural necessary conditions of C16 in fuel_core_txpool, for all paths: (1) MIRROR: per
Input / Output variant and for PoolTransaction::Blob, the collision-manager maps written by
on_stored_transaction are exactly the maps cleared by on_removed_transaction, and
find_collisions reads every map that on_stored_transaction writes for that variant (listed
exception: contract_users — contract inputs do not collide); on_stored / on_removed match Input
without wildcard; (2) every removal from the storage graph in Pool (subtree removal, single
removal, block extraction) is followed on every success path by
update_components_and_caches_on_removal fed directly with that removal's result; per removed
entry that function decreases gas and bytes, drops the id mapping and notifies the collision
manager and the selection algorithm; (3) current_gas / current_bytes_size / tx_id_to_storage_id
are written only in insert_inner (add) and update_components_and_caches_on_removal (sub), with
max_gas() / metered_bytes_size() of the transaction on both sides; (4) in insert_inner the
collided / evicted subtrees are removed before the new transaction is stored and registered;
(5) GraphStorage: cache_tx_infos and clear_cache mirror each other per Output variant and every
graph.remove_node result is passed to clear_cache. (6) in every pool method that both changes the contents and publishes statistics, each successful path from a change (ok edge of a removal / store) to the return passes update_stats().
"""
NOT_DECIDED = """That the maps are sufficient to express every conflict kind; equality of the
stats as numbers; interleavings of pool operations."""

CR = ["fuel_core_txpool"]
CM = "fuel_core_txpool::collision_manager::basic::BasicCollisionManager"
CMT = "fuel_core_txpool::collision_manager::CollisionManager"
POOL = "fuel_core_txpool::pool::Pool"
STORAGE = "fuel_core_txpool::storage::Storage"
GS = "fuel_core_txpool::storage::graph::GraphStorage"
INPUT = "fuel_tx::transaction::types::input::Input"
OUTPUT = "fuel_tx::transaction::types::output::Output"
PTX = "fuel_core_types::services::txpool::PoolTransaction"
UPD = f"{POOL}::update_components_and_caches_on_removal"

ADD = {"insert", "entry", "push", "or_default"}
DEL = {"remove", "retain"}
READ = {"get", "contains_key", "range"}
ITER_TRANSPARENT = {"[T]::iter", "alloc::vec::Vec::iter", "core::iter::sources::once::once",
                    "core::slice::<impl [T]>::iter"}


def _fields(ops, cls):
    return {f for (f, m) in ops if m in cls}


def check(ctx):
    F = ctx.F
    # ---- 1. collision manager mirror ------------------------------------------------------------
    with ctx.clause("1.collision-manager"):
        stored = F.unit(f"<{CM} as {CMT}>::on_stored_transaction").root
        removed = F.unit(f"<{CM} as {CMT}>::on_removed_transaction").root
        find = F.unit(f"<{CM} as {CMT}>::find_collisions").root
        total_adds = set()
        for enum_q in (INPUT, OUTPUT, PTX):
            a_st, a_rm, a_fd = ctx.match_arms(stored, enum_q), ctx.match_arms(removed, enum_q), ctx.match_arms(find, enum_q)
            short = enum_q.rsplit("::", 1)[-1]
            for v in ctx.variants(enum_q):
                added = _fields(ctx.field_ops(stored, a_st.get(v, set()), CM), ADD)
                deleted = _fields(ctx.field_ops(removed, a_rm.get(v, set()), CM), DEL)
                read = _fields(ctx.field_ops(find, a_fd.get(v, set()), CM), READ)
                total_adds |= added
                ctx.add(f"1.mirror-{short}-{v}", "MIRROR", added == deleted,
                        f"{short}::{v}: maps written on store {sorted(added)} == maps cleared on removal {sorted(deleted)}",
                        sites=[f"on_stored_transaction {sorted(added)}", f"on_removed_transaction {sorted(deleted)}"] if added or deleted else [],
                        site_key=f"{short}::{v}")
                need = added - {"contract_users"}
                ctx.add(f"1.collisions-read-{short}-{v}", "MIRROR", need <= read,
                        f"{short}::{v}: find_collisions reads {sorted(read)} ⊇ maps written on store {sorted(need)}",
                        sites=[f"find_collisions {sorted(read)}"] if need or read else [],
                        site_key=f"{short}::{v}")
        ctx.add("1.maps-covered", "COUNT", total_adds >= {"messages_spenders", "coins_spenders", "contracts_creators", "contract_users", "blobs_users"},
                f"on_stored_transaction writes all five maps: {sorted(total_adds)}", sites=sorted(total_adds), site_key="maps")
        # every field of the collision manager is one of the reviewed maps (a new map needs a rule)
        fields = [f["n"] for f in F.adt(CM)["variants"][0]["fields"]]
        ctx.add("1.no-unreviewed-map", "COUNT", set(fields) == {"messages_spenders", "coins_spenders", "contracts_creators", "contract_users", "blobs_users"},
                f"fields of BasicCollisionManager: {fields}", sites=fields, site_key="fields")
        ctx.dispatch_total("1.on-stored-input-exhaustive", stored, INPUT)
        ctx.dispatch_total("1.on-removed-input-exhaustive", removed, INPUT)

    # ---- 2. removals are accounted -----------------------------------------------------------------
    with ctx.clause("2.removal-accounting"):
        removal_calls = [f"{STORAGE}::remove_transaction_and_dependents_subtree", f"{STORAGE}::remove_transaction"]
        units = {}
        for c in ctx.call_sites(removal_calls, CR):
            if c.body.unit.startswith(POOL + "::"):
                units.setdefault(c.body.defq, []).append(c)
        sites = [c for cs in units.values() for c in cs]
        ctx.expect_sites("2.removal-sites", sites, at_least=8, what="storage removals in Pool",
                         detail="insert_inner x2, remove_transactions_and_dependents, remove_skipped_transaction, rollback_preconfirmed_transaction x2, process_committed_transactions, process_preconfirmed_committed_transaction (+ closures)")
        for c in sorted(sites, key=lambda c: (c.body.defq, c.bb)):
            b = c.body
            upd = b.calls_to(UPD)
            key = f"{b.defq.split('::')[-1] if '{' not in b.defq else b.unit.split('::')[-1]}@{c.name}"
            ctx.paired(f"2.paired-{key}", c, upd, on="ok" if c.name == "remove_transaction" else "any",
                       detail=f"{c.name} in {b.unit.split('::')[-1]} is followed by update_components_and_caches_on_removal on every path")
        # every update call is fed directly by a removal result (not by an accumulator)
        upd_sites = [c for c in ctx.call_sites(UPD, CR)]
        ctx.expect_sites("2.update-sites", upd_sites, at_least=9, what="update_components_and_caches_on_removal call sites")
        seen = {}
        for c in sorted(upd_sites, key=lambda c: (c.body.defq, c.bb)):
            b = c.body
            o = Origins(b, 0, transparent=set(__import__("core").TRANSPARENT) | ITER_TRANSPARENT)
            at = o.atoms(c.args[1])
            src_ok = atom_match(at, [f"call:{x}" for x in removal_calls])
            if not src_ok and b.is_closure_like():
                # extract_transactions_for_block: closure over the entries returned by gather_best_txs
                src_ok = ("param", 2) in at and b.unit == f"{POOL}::extract_transactions_for_block"
            n = seen.setdefault(b.unit, 0)
            seen[b.unit] = n + 1
            ctx.add(f"2.update-fed-by-removal-{b.unit.split('::')[-1]}-{n}", "PROV", src_ok,
                    "argument of update_components_and_caches_on_removal originates directly from the storage removal result",
                    sites=[c.where()], site_key=f"{b.unit}:{n}",
                    witness=None if src_ok else {"atoms": sorted(map(str, at))[:30]})
        # block extraction: every gathered entry goes through the update
        eb = ctx.body_with(f"{POOL}::extract_transactions_for_block", "fuel_core_txpool::selection_algorithms::SelectionAlgorithm::gather_best_txs")
        g = ctx.one_call(eb, "fuel_core_txpool::selection_algorithms::SelectionAlgorithm::gather_best_txs")
        closures = [b for b in F.unit(f"{POOL}::extract_transactions_for_block").bodies if b.calls_to(UPD)]
        ctx.expect_sites("2.extract-update-closure", [b.defq for b in closures], exactly=1, what="closure updating caches per extracted entry")
        for cb in closures:
            ctx.must_pass("2.extract-every-entry-updated", cb, cb.calls_to(UPD), exits="all")
            ctx.flows("2.extract-gathered-flow-to-map", g, to_call="core::iter::traits::iterator::Iterator::map",
                      through_calls=("core::iter::traits::collect::IntoIterator::into_iter",))
        # per-entry work of update_components_and_caches_on_removal
        ub = ctx.body_with(UPD, f"{CMT}::on_removed_transaction")
        nxt = ctx.one_call(ub, "core::iter::traits::iterator::Iterator::next")
        some_edges, _ = ctx.ok_edges(nxt)
        starts = [ctx._edge_target(ub, e) for e in some_edges]
        ops = {
            "gas-sub": ub.calls_to("u64::saturating_sub"),
            "bytes-sub": ub.calls_to("usize::saturating_sub"),
            "id-removed": ub.calls_to("std::collections::hash::map::HashMap::remove"),
            "collision-manager-notified": ub.calls_to(f"{CMT}::on_removed_transaction"),
            "selection-notified": ub.calls_to("fuel_core_txpool::selection_algorithms::SelectionAlgorithm::on_removed_transaction"),
        }
        for name, cs in ops.items():
            ok = bool(cs) and bool(starts) and ub.path(starts, [nxt.bb], cut_blocks=[c.bb for c in cs]) is None
            ctx.add(f"2.per-entry-{name}", "MPT", ok, f"every removed entry passes {name} before the next entry",
                    sites=[c.where() for c in cs], site_key=ub.defq)
        for c in ops["gas-sub"]:
            ctx.arg_origin("2.gas-sub-operand", c, 1, "call:fuel_core_types::services::txpool::PoolTransaction::max_gas")
            ctx.arg_origin("2.gas-sub-accumulator", c, 0, f"field:{POOL}.current_gas")
        for c in ops["bytes-sub"]:
            ctx.arg_origin("2.bytes-sub-operand", c, 1, "call:fuel_core_types::services::txpool::PoolTransaction::metered_bytes_size")
            ctx.arg_origin("2.bytes-sub-accumulator", c, 0, f"field:{POOL}.current_bytes_size")
        for c in ops["id-removed"]:
            ctx.arg_origin("2.id-removed-map", c, 0, f"field:{POOL}.tx_id_to_storage_id")

    # ---- 3. writers of the accounting fields ----------------------------------------------------------
    with ctx.clause("3.accounting-writers"):
        for fld in ("current_gas", "current_bytes_size"):
            ctx.only_field_writers(f"3.{fld}-writers", POOL, fld,
                                   [f"{POOL}::insert_inner", UPD, f"{POOL}::new"], CR, kinds=("write", "refmut"), min_sites=2)
        ib = ctx.body_with(f"{POOL}::insert_inner", f"{STORAGE}::store_transaction")
        adds = {"current_gas": ("u64::saturating_add", "max_gas"), "current_bytes_size": ("usize::saturating_add", "metered_bytes_size")}
        for fld, (fn, acc) in adds.items():
            ws = [(bb, s) for (k, b, bb, s) in ctx.field_touches(POOL, fld, CR, kinds=("write",)) if b is ib]
            ctx.expect_sites(f"3.{fld}-insert-write", [f"{ib.file}:{s.get('line')}" for _, s in ws], exactly=1, what=f"write of {fld} in insert_inner")
            for bb, s in ws:
                at = Origins(ib, 1).atoms(s["rv"]["op"]) if s["rv"]["k"] == "use" else set()
                ctx.add(f"3.{fld}-add-shape", "MIRROR", atom_match(at, f"call:{fn}") and
                        atom_match(at, f"call:fuel_core_types::services::txpool::PoolTransaction::{acc}") and
                        atom_match(at, f"field:{POOL}.{fld}"),
                        f"{fld} grows by {acc}() of the stored transaction (mirror of the removal side)",
                        sites=[f"{ib.file}:{s.get('line')}"], site_key=ib.defq)
        # id map: inserted only in insert_inner, removed only in the update function and the
        # inclusion paths
        ins = [c for c in ctx.call_sites("std::collections::hash::map::HashMap::insert", CR)
               if c.body.unit.startswith(POOL + "::") and atom_match(Origins(c.body, 0).atoms(c.args[0]), f"field:{POOL}.tx_id_to_storage_id")]
        ctx.add("3.id-map-insert-site", "WMW", len(ins) == 1 and ins[0].body.unit == f"{POOL}::insert_inner",
                "tx_id_to_storage_id.insert happens only in insert_inner", sites=[c.where() for c in ins], site_key="ids")

    # ---- 4. insert_inner ordering ------------------------------------------------------------------------
    with ctx.clause("4.insert-order"):
        ib = ctx.body_with(f"{POOL}::insert_inner", f"{STORAGE}::store_transaction")
        store = ctx.one_call(ib, f"{STORAGE}::store_transaction")
        rem = ib.calls_to(f"{STORAGE}::remove_transaction_and_dependents_subtree")
        ctx.expect_sites("4.two-eviction-loops", rem, exactly=2, what="subtree removals in insert_inner (free-space evictions and collisions)")
        after_store = ib.reach([store.target])
        ctx.add("4.evictions-before-store", "ORDER", all(c.bb not in after_store for c in rem) and
                all(store.bb in ib.reach([c.bb]) for c in rem),
                "collided / evicted subtrees are removed before the new transaction is stored", sites=[c.where() for c in rem], site_key=ib.defq)
        srcs = set()
        for c in rem:
            at = Origins(ib, 1).atoms(c.args[1])
            if atom_match(at, "call:std::collections::hash::map::HashMap::keys") or atom_match(at, "field:collisions"):
                srcs.add("collisions")
            if atom_match(at, "field:transactions_to_remove"):
                srcs.add("transactions_to_remove")
        ctx.add("4.eviction-sources", "PROV", srcs == {"collisions", "transactions_to_remove"},
                f"the two loops evict the colliding transactions and the free-space victims: {sorted(srcs)}", sites=sorted(srcs), site_key=ib.defq)
        can = ctx.one_call(ib, f"{POOL}::can_insert_transaction")
        ctx.after_ok("4.checked-before-any-change", can, rem + [store], detail="nothing is removed or stored unless can_insert_transaction succeeded")
        # store is followed by the registration in every component
        for name, callee in (("collision-manager", f"{CMT}::on_stored_transaction"),
                             ("id-map", "std::collections::hash::map::HashMap::insert")):
            ctx.paired(f"4.store-registers-{name}", store, ib.calls_to(callee), on="any")

    # ---- 5. graph storage caches ----------------------------------------------------------------------------
    with ctx.clause("5.graph-caches"):
        cache = F.unit(f"{GS}::cache_tx_infos").root
        clear = F.unit(f"{GS}::clear_cache").root
        a_c, a_r = ctx.match_arms(cache, OUTPUT), ctx.match_arms(clear, OUTPUT)
        total = set()
        for v in ctx.variants(OUTPUT):
            added = _fields(ctx.field_ops(cache, a_c.get(v, set()), GS), ADD)
            deleted = _fields(ctx.field_ops(clear, a_r.get(v, set()), GS), DEL)
            total |= added
            ctx.add(f"5.cache-mirror-{v}", "MIRROR", added == deleted,
                    f"Output::{v}: cached {sorted(added)} == cleared {sorted(deleted)}",
                    sites=[f"cache {sorted(added)}", f"clear {sorted(deleted)}"] if added or deleted else [], site_key=v)
        ctx.add("5.cache-maps", "COUNT", total == {"coins_creators", "contracts_creators"}, f"cache_tx_infos fills {sorted(total)}",
                sites=sorted(total), site_key="maps")
        rn = [c for c in ctx.call_sites("petgraph::graph_impl::stable_graph::StableGraph::remove_node", CR)]
        ctx.expect_sites("5.remove-node-sites", rn, at_least=3, what="graph.remove_node sites")
        for i, c in enumerate(sorted(rn, key=lambda c: (c.body.defq, c.bb))):
            b = c.body
            direct = b.calls_to(f"{GS}::clear_cache")
            ok = False
            if direct:
                # result flows (through expect) into clear_cache on every path
                ok = b.path([c.target], b.return_blocks(), cut_blocks=[d.bb for d in direct]) is None
            else:
                # `.inspect(|e| self.clear_cache(e))`: the Some value is passed to a closure of the same
                # unit that calls clear_cache
                insp = b.calls_to("core::option::Option::inspect")
                cl = [x for x in F.units(b.unit, crate="fuel_core_txpool")[0].bodies if x is not b and x.calls_to(f"{GS}::clear_cache")] if insp else []
                ok = bool(insp) and bool(cl) and all(ctx and True for _ in cl) and \
                    any(atom_match(Origins(b, 1).atoms(i2.args[0]), "call:petgraph::graph_impl::stable_graph::StableGraph::remove_node") and
                        atom_match(Origins(b, 0).atoms(i2.args[1]), [f"closure:{x.defq}" for x in cl]) for i2 in insp)
            ctx.add(f"5.removed-node-clears-cache-{b.unit.split('::')[-1]}", "PAIR", ok,
                    "every node removed from the graph has its cached outputs cleared", sites=[c.where()], site_key=b.unit)
        ctx.only_callers("5.cache-on-store", f"{GS}::cache_tx_infos", [f"<{GS} as {STORAGE}>::store_transaction"], CR)

    # -- published statistics follow every change of the pool contents --
    with ctx.clause("6.stats-published-after-every-change"):
        P6 = "fuel_core_txpool::pool::Pool"
        US = f"{P6}::update_stats"
        CH = (f"{P6}::update_components_and_caches_on_removal", "fuel_core_txpool::storage::Storage::remove_transaction_and_dependents_subtree",
              "fuel_core_txpool::storage::Storage::remove_transaction", "fuel_core_txpool::storage::Storage::store_transaction")
        n6 = 0
        for u6 in F.find_units(f"{P6}::*", "fuel_core_txpool"):
            if u6.q.endswith("::update_stats") or "{closure" in u6.q:
                continue
            b6 = u6.root
            ch = [c for c in b6.calls if c.bb in b6.live and any(c.is_path(x) for x in CH)]
            us = [c for c in b6.calls if c.bb in b6.live and c.is_path(US)]
            if not ch or not us:
                continue        # helpers that change the pool but leave publishing to their caller are covered through the callers
            n6 += 1
            errs6 = b6.error_blocks()
            def starts6(c):
                # a removal that returned None / Err changed nothing: the change starts on the ok edge when the result is tested
                oke, _ = ctx.ok_edges(c)
                ts = [ctx._edge_target(b6, e) for e in oke]
                return [t for t in ts if t is not None] or ([c.target] if c.target is not None else [])
            late = [c for c in ch if b6.path(starts6(c), b6.return_blocks(), cut_blocks=[x.bb for x in us] + list(errs6)) is not None]
            ctx.add(f"6.{u6.q.rsplit('::', 1)[-1]}-stats-after-last-change", "PAIR", not late,
                    f"in Pool::{u6.q.rsplit('::', 1)[-1]} every successful path from a change of the pool contents to the return passes update_stats() "
                    "(the published count / gas / size would otherwise lag behind what the pool holds)" + (f"; not followed by update_stats: {[c.name + ' line ' + str(c.line) for c in late]}" if late else ""),
                    sites=[c.where() for c in us], site_key=u6.q.rsplit("::", 1)[-1])
        ctx.add("6.functions-checked", "COUNT", n6 >= 4, f"{n6} pool methods both change the contents and publish statistics", sites=[str(n6)], site_key="n")
