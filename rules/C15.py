"""C15 — only blocks that satisfy the consensus rules are accepted (DESIGN §7 C15)."""
from core import AnchorMissing, Origins, atom_match, CMP_CALLS

LEVEL = "other"
EXPLANATION = """
Structural necessary conditions of C15, for all paths: (1) poa::verifier::verify_block_fields returns
Ok only past the pass-edges of six checks, identified by the origins of their operands, each failing
edge an error exit: height != 0; header.prev_root() == block_header_merkle_root(height.pred());
header.da_height() >= prev.da_height(); header.time() >= prev.time(); header.application_hash() ==
application().hash(); header.validate_transactions(block.transactions()); (2) verify_consensus matches
the consensus config without wildcard and each arm is recover(header.id()).is_ok_and(owner == key),
the PoAV2 key taken from address_for_height(header.height()); block_verifier::Verifier dispatches on
the block's consensus: unknown variants are rejected / false, PoA goes through the poa verifier;
(3) Block::try_from_executed yields Some only if validate_transactions is true; validate_transactions
compares both the regenerated transactions root and the count; (4) FIELDCOV: ConsensusHeader::hash and
ApplicationHeader::hash feed every field of their struct (including the generated fields) into the
hasher, and generate_txns_root hashes to_bytes() of every transaction in order. validate_transactions contains no value-truncating integer cast (the transaction count is compared at full width); under fault-proving the V2 header and application-hash impls are checked as well. The length is also not narrowed by conversion (try_from / try_into / min / clamp / unwrap_or) before it is compared with the header's count.
"""
NOT_DECIDED = """Signature cryptography; Merkle arithmetic; the importer's use of these checks is C08.6."""

CR = ["fuel_core_poa", "fuel_core_consensus_module", "fuel_core_types"]
V = "fuel_core_poa::verifier"
HDR = "fuel_core_types::blockchain::header"
BH = f"{HDR}::BlockHeader"


def check(ctx):
    F = ctx.F
    with ctx.clause("1.block-fields"):
        b = F.unit(f"{V}::verify_block_fields").root
        oks = ctx.ok_return_blocks(b)
        ctx.expect_sites("1.ok-return", sorted(oks), exactly=1, what="Ok(()) of verify_block_fields")
        D = "fuel_core_poa::ports::Database"
        checks = {
            "height-non-zero": (ctx.cmp_tests(b, "Ne", lhs=f"call:{BH}::height", rhs="const:0", depth=1), True),
            "prev-root-matches": (ctx.cmp_tests(b, "Eq", lhs=f"call:{BH}::prev_root", rhs=f"call:{D}::block_header_merkle_root", depth=1), True),
            "da-height-monotone": (ctx.cmp_tests(b, "Ge", lhs=f"call:{BH}::da_height", rhs=f"call:{D}::block_header", depth=2), True),
            "time-monotone": (ctx.cmp_tests(b, "Ge", lhs=f"call:{BH}::time", rhs=f"call:{D}::block_header", depth=2), True),
            "application-hash-matches": (ctx.cmp_tests(b, "Eq", lhs=f"call:{BH}::application_hash", rhs=f"call:{HDR}::ApplicationHeader::hash", depth=1), True),
            "transactions-match-header": (ctx.call_tests(b, f"{BH}::validate_transactions"), True),
        }
        for name, (tests, truth) in checks.items():
            ctx.expect_sites(f"1.{name}-test", [f"bb{sw.bb}" for sw, _ in tests], exactly=1, what=f"the {name} check")
            ctx.guarded(f"1.{name}", b, oks, tests, truth=truth, detail=f"a block is accepted only if {name}")
            ctx.test_leads_to_error(f"1.{name}-rejects", b, tests, truth=not truth)
        mr = ctx.one_call(b, f"{D}::block_header_merkle_root")
        ph = ctx.one_call(b, f"{D}::block_header")
        ctx.arg_origin("1.root-of-parent-height", mr, 1, "call:fuel_types::numeric_types::BlockHeight::pred", depth=1)
        ctx.arg_origin("1.header-of-parent-height", ph, 1, "call:fuel_types::numeric_types::BlockHeight::pred", depth=1)
        vt = ctx.one_call(b, f"{BH}::validate_transactions")
        ctx.arg_origin("1.validates-block-transactions", vt, 1, "call:fuel_core_types::blockchain::block::Block::transactions", depth=0)
        # da / time comparisons: lhs is the new header, rhs the parent (not swapped)
        for name, acc in (("da-height", "da_height"), ("time", "time")):
            cs = [c for c in b.calls if c.bb in b.live and c.path in CMP_CALLS and
                  atom_match(Origins(b, 1).atoms(c.args[0]) | Origins(b, 1).atoms(c.args[1]), f"call:{BH}::{acc}")]
            ok = False
            for c in cs:
                rel = CMP_CALLS[c.path]
                a0, a1 = Origins(b, 2).atoms(c.args[0]), Origins(b, 2).atoms(c.args[1])
                par0, par1 = atom_match(a0, f"call:{D}::block_header"), atom_match(a1, f"call:{D}::block_header")
                ok = (rel == "Ge" and par1 and not par0) or (rel == "Le" and par0 and not par1)
            ctx.add(f"1.{name}-direction", "PROV", ok, f"new.{acc}() >= parent.{acc}() (operands not swapped)", sites=[c.where() for c in cs], site_key=name)

    with ctx.clause("2.consensus"):
        b = F.unit(f"{V}::verify_consensus").root
        u = F.unit(f"{V}::verify_consensus")
        CC = "fuel_core_chain_config::config::consensus::ConsensusConfig"
        ctx.dispatch_total("2.config-dispatch", b, CC)
        arms = ctx.match_arms(b, CC)
        for v in ctx.variants(CC):
            rec = [c for c in b.calls_to("fuel_crypto::secp256::signature::Signature::recover") if c.bb in arms.get(v, set())]
            ioa = [c for c in b.calls_to("core::result::Result::is_ok_and") if c.bb in arms.get(v, set())]
            ctx.expect_sites(f"2.{v}-recover", rec, exactly=1, what=f"signature recovery on the {v} arm")
            ctx.expect_sites(f"2.{v}-is_ok_and", ioa, exactly=1, what="is_ok_and(owner == key) (fail closed on recovery error)")
            for c in rec:
                ctx.arg_origin(f"2.{v}-recover-over-block-id", c, 1, f"call:{BH}::id", depth=2)
            for c in ioa:
                ctx.arg_origin(f"2.{v}-verdict-from-recover", c, 0, "call:fuel_crypto::secp256::signature::Signature::recover", depth=0)
                ctx.flows(f"2.{v}-verdict-returned", c, to_return=True)
                cl = [a[1] for a in Origins(b, 0).atoms(c.args[1]) if a[0] == "closure"]
                cb = [x for x in u.bodies if x.defq in cl]
                okc = False
                for x in cb:
                    for cc in x.calls:
                        if cc.path in CMP_CALLS and CMP_CALLS[cc.path] == "Eq":
                            at = Origins(x, 1).atoms(cc.args[0]) | Origins(x, 1).atoms(cc.args[1])
                            okc = atom_match(at, "call:fuel_tx::transaction::types::input::Input::owner")
                ctx.add(f"2.{v}-owner-equals-key", "PROV", okc, "the recovered owner must equal the configured signing key", sites=[x.defq for x in cb], site_key=v)
        afh = ctx.one_call(b, "fuel_core_chain_config::config::consensus::PoAV2::address_for_height")
        ctx.arg_origin("2.key-for-block-height", afh, 1, f"call:{BH}::height", depth=1)
        vb = F.unit("fuel_core_consensus_module::block_verifier::Verifier::verify_block_fields").root
        CN = "fuel_core_types::blockchain::consensus::Consensus"
        errs = vb.error_blocks()
        ctx.dispatch_total("2.verifier-fields-dispatch", vb, CN, allow_otherwise_to=lambda body, tb: body.path([tb], body.return_blocks(), cut_blocks=errs) is None,
                           detail="an unknown consensus kind is rejected")
        arms = ctx.match_arms(vb, CN)
        pv = vb.calls_to(f"{V}::verify_block_fields")
        ctx.add("2.poa-blocks-use-poa-rules", "DISPATCH", len(pv) == 1 and pv[0].bb in arms.get("PoA", set()), "PoA blocks are checked by poa::verifier::verify_block_fields",
                sites=[c.where() for c in pv], site_key="poa")
        cb = F.unit("fuel_core_consensus_module::block_verifier::Verifier::verify_consensus").root
        pc = cb.calls_to(f"{V}::verify_consensus")
        arms = ctx.match_arms(cb, CN)
        ctx.add("2.poa-seal-checked", "DISPATCH", len(pc) == 1 and pc[0].bb in arms.get("PoA", set()), "PoA seals go through poa::verifier::verify_consensus",
                sites=[c.where() for c in pc], site_key="seal")
        sws = ctx.enum_switches(cb, CN)
        falses = cb.const_return_blocks(0)
        okf = bool(sws)
        for (bb, sw, _) in sws:
            t = sw.term["otherwise"]
            if cb.blocks[t]["t"]["k"] != "unreachable" and cb.path([t], cb.return_blocks(), cut_blocks=falses) is not None:
                okf = False
        ctx.add("2.unknown-consensus-is-false", "CONST", okf, "an unknown consensus kind never verifies", sites=[f"bb{bb}" for bb, _, _ in sws], site_key="unk")

    with ctx.clause("3.transactions-root"):
        tb = F.unit("fuel_core_types::blockchain::block::Block::try_from_executed").root
        vt = ctx.one_call(tb, f"{BH}::validate_transactions")
        ts = ctx.one_call(tb, "core::bool::<impl bool>::then_some", "bool::then_some")
        ctx.arg_origin("3.some-only-if-valid", ts, 0, f"call:{BH}::validate_transactions", depth=0)
        ctx.flows("3.result-is-guarded-option", ts, to_return=True)
        vers = ["v1::BlockHeaderV1"]
        if ctx.config == "fault-proving":
            vers.append("v2::BlockHeaderV2")
        for ver in vers:
            sfx = "" if ver.startswith("v1") else "-v2"
            b = F.unit(f"{HDR}::{ver}::validate_transactions").root
            nc = ctx.narrowing_casts(b)
            ctx.expect_sites(f"3.count-compared-untruncated{sfx}", [f"line {s.get('line')}: {src} as {dst}" for _, s, src, dst in nc], exactly=0,
                             what="value-truncating integer cast in validate_transactions (the length must be compared at full width)")
            # the same for conversions that narrow by call: try_from / try_into with a fallback, min / clamp of the length
            o_len = Origins(b, 2)
            lossy = [c for c in b.calls if c.bb in b.live and c.name in ("try_from", "try_into", "min", "clamp", "unwrap_or", "unwrap_or_default", "unwrap_or_else", "saturating_sub") and
                     any(atom_match(o_len.atoms(a), "call:[T]::len") or atom_match(o_len.atoms(a), "call:*::len") for a in c.args)]
            ctx.expect_sites(f"3.length-not-narrowed-by-conversion{sfx}", lossy, exactly=0,
                             what="narrowing / saturating conversion of transactions.len() before it is compared with the header's count (a body longer than u16::MAX would match a saturated count)")
            g = ctx.one_call(b, f"{HDR}::generate_txns_root")
            ctx.arg_origin(f"3.root-of-given-transactions{sfx}", g, 0, "param:2", depth=0)
            eqs = ctx.rel_tests(b, "Eq") or []
            cmps = [c for c in b.calls if c.bb in b.live and c.path in CMP_CALLS] 
            binops = [s for bb, j, s in b.stmts() if bb in b.live and s["k"] == "assign" and s["rv"]["k"] == "bin" and s["rv"]["op"] == "Eq"]
            o = Origins(b, 1)
            root_cmp = any(atom_match(o.atoms(c.args[0]) | o.atoms(c.args[1]), f"call:{HDR}::generate_txns_root") and
                           atom_match(o.atoms(c.args[0]) | o.atoms(c.args[1]), "field:transactions_root") for c in cmps)
            cnt_cmp = any(atom_match(o.atoms(s["rv"]["a"]) | o.atoms(s["rv"]["b"]), "call:[T]::len") and
                          atom_match(o.atoms(s["rv"]["a"]) | o.atoms(s["rv"]["b"]), "field:transactions_count") for s in binops)
            ctx.add(f"3.root-compared{sfx}", "PROV", root_cmp, "regenerated root == header.transactions_root", sites=[c.where() for c in cmps], site_key="root")
            ctx.add(f"3.count-compared{sfx}", "PROV", cnt_cmp, "transactions.len() == header.transactions_count", sites=[str(s.get("line")) for s in binops], site_key="count")
            trues = b.const_return_blocks(1)
            # `a && b`: the result is true only past both tests
            both = ctx.find_tests(b, lambda t, orig: (not t[4]) if t[0] == "cmp" and t[1] == "Eq" else None)
            ctx.expect_sites(f"3.two-conditions{sfx}", [f"bb{sw.bb}" for sw, _ in both], at_least=1, what="root test guarding the count test (&&)")
        gb = ctx.body_with(f"{HDR}::generate_txns_root", "fuel_merkle::binary::root_calculator::MerkleRootCalculator::push")
        push = ctx.one_call(gb, "fuel_merkle::binary::root_calculator::MerkleRootCalculator::push")
        nxt = ctx.one_call(gb, "core::iter::traits::iterator::Iterator::next")
        some, _ = ctx.ok_edges(nxt)
        ctx.add("3.every-transaction-hashed", "MPT", gb.path([ctx._edge_target(gb, e) for e in some], [nxt.bb], cut_blocks=[push.bb]) is None,
                "every transaction contributes a leaf, in iteration order", sites=[push.where()], site_key="each")
        gu = F.unit(f"{HDR}::generate_txns_root")
        tobytes = [c for x in gu.bodies for c in x.calls if c.bb in x.live and c.path.endswith("::to_bytes")]
        ctx.expect_sites("3.leaf-is-transaction-bytes", tobytes, exactly=1, what="tx.to_bytes() as the leaf")

    with ctx.clause("4.header-hash-covers-all-fields"):
        table = [(f"{HDR}::ConsensusHeader::hash", f"{HDR}::ConsensusHeader", f"{HDR}::GeneratedConsensusFields", ""),
                 (f"{HDR}::ApplicationHeader::hash", f"{HDR}::ApplicationHeader", f"{HDR}::v1::GeneratedApplicationFieldsV1", "")]
        if ctx.config == "fault-proving":
            table.append((f"{HDR}::ApplicationHeader::hash", f"{HDR}::ApplicationHeader", f"{HDR}::v2::GeneratedApplicationFieldsV2", "-v2"))
        for fn, adt, gen, sfx in table:
            b = F.unit(fn, impl_self=gen.split("::")[-1]).root
            want = {f["n"] for f in F.adt(adt)["variants"][0]["fields"] if f["n"] != "generated"} | {f["n"] for f in F.adt(gen)["variants"][0]["fields"]}
            got = set()
            o = Origins(b, 2)
            ins = b.calls_to("fuel_crypto::hasher::Hasher::input")
            for c in ins:
                got |= {a[1] for a in o.atoms(c.args[1]) if a[0] == "field" and "." not in str(a[1])}
            short = fn.split("::")[-2] + sfx
            ctx.add(f"4.{short}-all-fields-hashed", "FIELDCOV", want <= got, f"{short}::hash feeds {sorted(want & got)} of {sorted(want)} into the hasher" +
                    (f"; missing {sorted(want - got)}" if want - got else ""), sites=[c.where() for c in ins], site_key=short)
            ctx.add(f"4.{short}-one-input-per-field", "COUNT", len(ins) == len(want), f"{len(ins)} hasher inputs for {len(want)} fields", sites=[str(len(ins))], site_key=short + ":n")
            dg = ctx.one_call(b, "fuel_crypto::hasher::Hasher::digest")
            ctx.flows(f"4.{short}-digest-returned", dg, to_return=True)
            ctx.add(f"4.{short}-digest-after-inputs", "ORDER", all(b.path([dg.target], [c.bb]) is None for c in ins), "the digest is taken after all inputs", sites=[dg.where()], site_key=short + ":o")
