"""C23 — the status cache returns the latest published status until it expires (guards only; DESIGN §7 C23)."""
from core import AnchorMissing, Origins, atom_match

LEVEL = "other"
EXPLANATION = """
Guard clauses of C23 in fuel_core_tx_status_manager::manager::TxStatusManager, for all paths:
(1) prune_old_statuses pops the oldest queue entry only on the false edge of `elapsed < ttl` (the true
edge stops pruning), and removes a cached status only when the cached timestamp equals the popped
queue timestamp (a newer publication is not pruned by an older queue entry); entries leave the
prunable cache only there; (2) add_new_status: a prunable status (anything but Submitted) is put into
the cache and the queue with the same timestamp and replaces the non-prunable (submitted) entry; a
submitted status is kept in the non-prunable map; is_prunable matches exactly Submitted as
non-prunable; (3) status_update always registers the status (prune, then add) before it is broadcast;
status() consults both maps. non_prunable_statuses entries are removed only by add_new_status (when a newer status arrives); prune_old_statuses touches only the queue and the prunable cache.
"""
NOT_DECIDED = """Time arithmetic; lookup precedence between the two maps as a value relation."""

CR = ["fuel_core_tx_status_manager"]
M = "fuel_core_tx_status_manager::manager::TxStatusManager"
D = "fuel_core_tx_status_manager::manager::Data"
TS = "fuel_core_types::services::transaction_status::TransactionStatus"


def check(ctx):
    F = ctx.F
    with ctx.clause("1.pruning"):
        b = F.unit(f"{M}::prune_old_statuses").root
        pop = ctx.one_call(b, "alloc::collections::vec_deque::VecDeque::pop_back")
        young = ctx.cmp_tests(b, "Lt", lhs="call:tokio::time::instant::Instant::duration_since", rhs=f"field:{M}.ttl", depth=0)
        ctx.guarded("1.pop-only-expired", b, [pop], young, truth=False, detail="an entry younger than the TTL is never pruned")
        for sw, pol in young:
            for lab in sw.edges_for_truth(True if pol else False):
                t = ctx._edge_target(b, (sw.bb, lab))
                ctx.add("1.young-entry-stops-pruning", "GUARD", b.path([t], [pop.bb]) is None, "pruning stops at the first non-expired entry", sites=[f"bb{sw.bb}"], site_key="stop")
        ds = ctx.one_call(b, "tokio::time::instant::Instant::duration_since")
        ctx.arg_origin("1.age-of-oldest-entry", ds, 1, "call:alloc::collections::vec_deque::VecDeque::back", depth=1)
        rm = ctx.one_call(b, "std::collections::hash::map::OccupiedEntry::remove")
        same = ctx.cmp_tests(b, "Eq", lhs="call:std::collections::hash::map::OccupiedEntry::get", rhs="call:alloc::collections::vec_deque::VecDeque::pop_back", depth=1)
        ctx.guarded("1.remove-only-matching-timestamp", b, [rm], same, truth=True, detail="a status republished later keeps its newer timestamp and is not pruned by the stale queue entry")
        ent = ctx.one_call(b, "std::collections::hash::map::HashMap::entry")
        ctx.arg_origin("1.entry-in-prunable-cache", ent, 0, f"field:{D}.prunable_statuses", depth=0)
        ctx.arg_origin("1.entry-of-popped-tx", ent, 1, "call:alloc::collections::vec_deque::VecDeque::pop_back", depth=1)
        rem = set()
        for body in F.crate("fuel_core_tx_status_manager")["bodies"]:
            if D in body.adts_touched and "/manager.rs" in body.file:
                for (fld, m) in ctx.field_ops(body, body.live, D):
                    if fld == "prunable_statuses" and m in ("remove", "retain", "clear", "drain", "entry", "remove_entry"):
                        rem.add((body.unit.rsplit("::", 1)[-1], m))
        ctx.add("1.cache-eviction-sites", "WMW", rem == {("prune_old_statuses", "entry")}, f"prunable_statuses entries are removed only by prune_old_statuses: {sorted(rem)}",
                sites=sorted(map(str, rem)), site_key="rm")
        # a submitted (non-prunable) status is kept until it is replaced: it is removed only when a newer status is published
        nrem = set()
        for body in F.crate("fuel_core_tx_status_manager")["bodies"]:
            if D in body.adts_touched and "/manager.rs" in body.file:
                for (fld, m) in ctx.field_ops(body, body.live, D):
                    if fld == "non_prunable_statuses" and m in ("remove", "retain", "clear", "drain", "remove_entry", "take"):
                        nrem.add((body.unit.rsplit("::", 1)[-1], m))
        ctx.add("1.submitted-status-removed-only-on-replacement", "WMW", nrem == {("add_new_status", "remove")},
                f"non_prunable_statuses entries are removed only by add_new_status (when a newer status arrives), never by pruning: {sorted(nrem)}", sites=sorted(map(str, nrem)), site_key="nrm")
        pf = {fld for (fld, m) in ctx.field_ops(b, b.live, D)}
        ctx.add("1.pruning-touches-only-the-prunable-side", "WMW", pf <= {"pruning_queue", "prunable_statuses"}, f"prune_old_statuses touches {sorted(pf)}", sites=sorted(pf), site_key="pf")

    with ctx.clause("2.add_new_status"):
        b = F.unit(f"{M}::add_new_status").root
        pr = ctx.call_tests(b, f"{M}::is_prunable")
        ops = {}
        for c in b.calls:
            if c.bb in b.live and c.args:
                at = Origins(b, 0).atoms(c.args[0])
                for a in at:
                    if a[0] == "field" and isinstance(a[1], str) and a[1].startswith(D + "."):
                        ops.setdefault((a[1][len(D) + 1:], c.name), []).append(c)
        want_true = [("pruning_queue", "push_front"), ("prunable_statuses", "insert"), ("non_prunable_statuses", "remove")]
        want_false = [("non_prunable_statuses", "insert")]
        for key in want_true:
            cs = ops.get(key, [])
            ctx.expect_sites(f"2.prunable-{key[0]}-{key[1]}", cs, exactly=1, what=f"{key[0]}.{key[1]} for a prunable status")
            ctx.guarded(f"2.prunable-{key[0]}-{key[1]}-arm", b, cs, pr, truth=True)
        for key in want_false:
            cs = ops.get(key, [])
            ctx.expect_sites(f"2.submitted-{key[0]}-{key[1]}", cs, exactly=1, what=f"{key[0]}.{key[1]} for a submitted status")
            ctx.guarded(f"2.submitted-{key[0]}-{key[1]}-arm", b, cs, pr, truth=False)
        edges_t = [(sw.bb, lab) for sw, pol in pr for lab in sw.edges_for_truth(True if pol else False)]
        for key in want_true:
            cs = ops.get(key, [])
            p = b.path([ctx._edge_target(b, e) for e in edges_t], b.return_blocks(), cut_blocks=[c.bb for c in cs]) if edges_t and cs else [0]
            ctx.add(f"2.prunable-always-{key[0]}-{key[1]}", "MPT", p is None, f"every prunable status passes {key[0]}.{key[1]}", sites=[c.where() for c in cs], site_key=str(key))
        # same timestamp in queue and cache
        q = ops.get(("pruning_queue", "push_front"), [None])[0]
        i = ops.get(("prunable_statuses", "insert"), [None])[0]
        if q is not None and i is not None:
            o = Origins(b, 1)
            ctx.add("2.same-timestamp", "PROV", atom_match(o.atoms(q.args[1]), "call:tokio::time::instant::Instant::now") and atom_match(o.atoms(i.args[2]), "call:tokio::time::instant::Instant::now") and
                    len(b.calls_to("tokio::time::instant::Instant::now")) == 1, "the queue entry and the cached status carry the same timestamp", sites=[q.where(), i.where()], site_key="now")
        pb = F.unit(f"{M}::is_prunable").root
        sws = ctx.enum_switches(pb, TS)
        names = ctx.variants(TS)
        falses = pb.const_return_blocks(0)
        npr = set()
        for (bb, sw, _) in sws:
            for v, t in sw.term["arms"]:
                npr.add(names[v])
        ctx.add("2.only-submitted-is-kept-forever", "DISPATCH", npr == {"Submitted"}, f"is_prunable singles out {sorted(npr)}", sites=sorted(npr), site_key="sub")

    with ctx.clause("3.status_update"):
        b = ctx.body_with(f"{M}::status_update", f"{M}::register_status")
        reg = ctx.one_call(b, f"{M}::register_status")
        ctx.must_pass("3.always-registered", b, [reg], exits="all")
        snd = [c for c in b.calls if c.bb in b.live and c.name == "send"]
        ctx.dominated("3.registered-before-broadcast", b, snd, by_blocks=[reg])
        rb = F.unit(f"{M}::register_status").root
        pr = ctx.one_call(rb, f"{M}::prune_old_statuses")
        ad = ctx.one_call(rb, f"{M}::add_new_status")
        ctx.must_pass("3.register-adds", rb, [ad], exits="all")
        ctx.dominated("3.prune-before-add", rb, [ad], by_blocks=[pr])
        ctx.only_callers("3.add-callers", f"{M}::add_new_status", [f"{M}::register_status"], CR)
        sb = F.unit(f"{M}::status")
        gets = set()
        for x in sb.bodies:
            for (fld, m) in ctx.field_ops(x, x.live, D, depth=1):
                if m == "get":
                    gets.add(fld)
        ctx.add("3.lookup-consults-both-maps", "PROV", gets == {"non_prunable_statuses", "prunable_statuses"}, f"status() reads {sorted(gets)}", sites=sorted(gets), site_key="get")
