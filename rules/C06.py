"""C06 — a transaction id is executed at most once in the chain's history (DESIGN §7 C06)."""
import os, sys
sys.path.insert(0, os.path.dirname(os.path.abspath(__file__)))
from core import AnchorMissing, Origins, atom_match
from exec_common import *

LEVEL = "other"
EXPLANATION = """
Structural necessary conditions of C06 in fuel_core_executor, for all paths: in execute_transaction the
ok-edge of check_tx_is_not_duplicate dominates the dispatch to every transaction executor;
check_tx_is_not_duplicate turns ProcessedTransactions.contains_key(id) == true into
TransactionIdCollision, looked up for the executed id in the transaction-level storage (which reads
through the block-level transaction, so same-block duplicates are seen);
execute_chargeable_transaction records the id on every success path; store_mint_tx rejects an already
recorded mint id (replace(..).is_some() => error) and execute_mint always reaches it;
ProcessedTransactions is written in the executor only at those two sites; regenesis keeps the
recorded ids (ProcessedTransactions is exported and imported). (5) the ProcessedTransactions lookup of check_tx_is_not_duplicate is never defaulted and its error edge is an error exit.
"""
NOT_DECIDED = """Hash collisions; value equality of ids."""

PT = "ProcessedTransactions"


def check(ctx):
    F = ctx.F
    with ctx.clause("1.duplicate-check-first"):
        b = F.unit(f"{EX}::execute_transaction").root
        chk = ctx.one_call(b, f"{EX}::check_tx_is_not_duplicate")
        execs = b.calls_to(f"{EX}::execute_chargeable_transaction", f"{EX}::execute_mint")
        ctx.expect_sites("1.executor-sites", execs, at_least=6, what="executor dispatch sites (Script, Create, Mint, Upgrade, Upload, Blob)")
        ctx.after_ok("1.checked-before-execution", chk, execs, detail="no transaction kind is executed before the duplicate check passed")
        ctx.arg_origin("1.check-this-id", chk, 0, "param:3")
        ctx.arg_origin("1.check-in-tx-storage", chk, 1, "param:8")
        ctx.dispatch_total("1.kind-dispatch", b, "fuel_vm::checked_transaction::CheckedTransaction")
        ctx.only_callers("1.execute_transaction-callers", f"{EX}::execute_transaction", [f"{EX}::execute_transaction_and_commit"], CR)
        ctx.only_callers("1.executors-callers", [f"{EX}::execute_chargeable_transaction", f"{EX}::execute_mint"], [f"{EX}::execute_transaction"], CR, min_sites=6)
    with ctx.clause("2.check_tx_is_not_duplicate"):
        b = F.unit(f"{EX}::check_tx_is_not_duplicate").root
        reads = [c for c in ctx.table_ops(PT, CR, reads=True) if c.body is b]
        ctx.expect_sites("2.lookup", reads, exactly=1, what="ProcessedTransactions.contains_key")
        t = ctx.value_tests(b, "call:fuel_storage::StorageRef::contains_key")
        ctx.test_leads_to_error("2.known-id-rejects", b, t, truth=True, detail="an already processed id is a TransactionIdCollision")
        ctx.guarded("2.ok-only-if-unknown", b, ctx.ok_return_blocks(b), t, truth=False)
        for c in reads:
            ctx.arg_origin("2.lookup-by-id", c, 1, "param:1")
    with ctx.clause("3.recording"):
        cb = F.unit(f"{EX}::execute_chargeable_transaction").root
        ins = [c for c in ctx.table_ops(PT, CR, ops=("insert", "replace")) if c.body is cb]
        ctx.expect_sites("3.chargeable-records", ins, exactly=1, what="ProcessedTransactions.insert in execute_chargeable_transaction")
        ctx.must_pass("3.chargeable-always-records", cb, ins, detail="every successfully executed transaction records its id")
        for c in ins:
            ctx.arg_origin("3.records-own-id", c, 1, "call:fuel_vm::checked_transaction::Checked::id")
        mb = F.unit(f"{EX}::store_mint_tx").root
        rep = [c for c in ctx.table_ops(PT, CR, ops=("replace",)) if c.body is mb]
        ctx.expect_sites("3.mint-records", rep, exactly=1, what="ProcessedTransactions.replace in store_mint_tx")
        ctx.test_leads_to_error("3.mint-duplicate-rejects", mb, ctx.call_tests(mb, "core::option::Option::is_some"), truth=True)
        em = F.unit(f"{EX}::execute_mint").root
        ctx.must_pass("3.mint-always-stored", em, em.calls_to(f"{EX}::store_mint_tx"))
        ctx.only_table_writers("3.writers", PT, {f"{EX}::execute_chargeable_transaction": {"insert"}, f"{EX}::store_mint_tx": {"replace"}}, CR, min_sites=2)
    with ctx.clause("4.regenesis-keeps-ids"):
        on = ctx.call_sites("fuel_core::service::genesis::importer::SnapshotImporter::spawn_worker_on_chain", ["fuel_core"])
        ex = ctx.call_sites("fuel_core::service::genesis::exporter::Exporter::spawn_task", ["fuel_core"]) or \
            ctx.call_sites("fuel_core::service::genesis::exporter::Exporter::*", ["fuel_core"])
        imp = [c for c in on if any(PT in t for t in c.targs)]
        exp = [c for c in ex if any(PT in t for t in c.targs)]
        ctx.expect_sites("4.imported", imp, at_least=1, what="on-chain import worker for ProcessedTransactions")
        ctx.expect_sites("4.exported", exp, at_least=1, what="export task for ProcessedTransactions")

    # -- a failed lookup is an error, not "never processed" --
    with ctx.clause("5.lookup-error-propagates"):
        db5 = F.unit(f"{EX}::check_tx_is_not_duplicate").root
        ck = [c for c in db5.calls if c.bb in db5.live and c.name == "contains_key"]
        ctx.expect_sites("5.processed-lookup", ck, exactly=1, what="ProcessedTransactions.contains_key(tx_id)")
        if ck:
            sw5 = [c for c in db5.calls if c.bb in db5.live and c.name in ("unwrap_or_default", "unwrap_or", "unwrap_or_else", "ok", "is_ok_and", "is_ok", "unwrap_or_else") and
                   atom_match(Origins(db5, 1).atoms(c.args[0]), "call:*::contains_key")]
            ctx.expect_sites("5.lookup-error-not-defaulted", sw5, exactly=0, what="defaulting of a failed ProcessedTransactions lookup (a storage error would count as `not processed` and the transaction would run again)")
            bad5, _ = ctx.ok_edges(ck[0], polarity="bad")
            ctx.add("5.lookup-error-is-an-error-exit", "REJECT", bool(bad5) and all(db5.path([ctx._edge_target(db5, e)], db5.return_blocks(), cut_blocks=db5.error_blocks()) is None for e in bad5),
                    "a storage error of the lookup leaves check_tx_is_not_duplicate through an error exit", sites=[ck[0].where()], site_key="err")
