"""C29 — the relayer records every DA block's events exactly once (DESIGN §7 C29)."""
from core import AnchorMissing, Origins, atom_match

LEVEL = "other"
EXPLANATION = """
Structural clauses of C29 in fuel_core_relayer, for all paths: (1) write_logs: for each downloaded
page the insertion loop ranges over RangeInclusive(start_height, last_height) of that page and calls
insert_events for *every* height of the range (no skip between the loop head and the call; heights
without events get the empty list); logs are sorted by log index before they are grouped (ok-edge);
parse errors, a missing log_index and insert errors all reach error exits; the log kinds are matched
without wildcard; events are grouped under their own da_height(); (2) download_logs: a page's
start/last heights are the oldest()/latest() used in its filter, the next page comes from
advance_and_resize, and the page is advanced only in the success closure (an RPC error does not skip
a page); (3) RelayerDb::insert_events: every event's da_height must equal the key (else error)
before EventsHistory is written; insert and commit are in one storage transaction; a decreasing
latest height is an error.
"""
NOT_DECIDED = """Pager arithmetic (EthSyncGap::page, AdaptivePageSizer); the Ethereum node's answers."""

CR = ["fuel_core_relayer"]
GL = "fuel_core_relayer::service::get_logs"
DL = f"{GL}::DownloadedLogs"


def check(ctx):
    F = ctx.F
    with ctx.clause("1.write_logs"):
        u = F.unit(f"{GL}::write_logs")
        b = ctx.body_with(u, "fuel_core_relayer::ports::RelayerDb::insert_events")
        ins = ctx.one_call(b, "fuel_core_relayer::ports::RelayerDb::insert_events")
        rng = ctx.one_call(b, "core::ops::range::RangeInclusive::new")
        ctx.arg_origin("1.range-from-page-start", rng, 0, f"field:{DL}.start_height", depth=1)
        ctx.arg_origin("1.range-to-page-last", rng, 1, f"field:{DL}.last_height", depth=1)
        hn = [c for c in b.calls_to("core::iter::traits::iterator::Iterator::next") if atom_match(Origins(b, 0).atoms(c.args[0]), "call:core::ops::range::RangeInclusive::new")]
        ctx.expect_sites("1.height-loop", hn, exactly=1, what="loop over the heights of the page")
        some, _ = ctx.ok_edges(hn[0])
        starts = [ctx._edge_target(b, e) for e in some]
        ctx.add("1.every-height-inserted", "MPT", b.path(starts, [hn[0].bb] + b.return_blocks(), cut_blocks=[ins.bb]) is None,
                "insert_events is called for every height of the page (no skipped height)", sites=[ins.where()], site_key="each")
        ctx.arg_origin("1.insert-for-loop-height", ins, 1, "call:core::iter::traits::iterator::Iterator::next", depth=1)
        ctx.arg_origin("1.insert-events-of-that-height", ins, 2, "call:std::collections::hash::map::HashMap::get", depth=1)
        uo = ctx.one_call(b, "core::option::Option::unwrap_or")
        ctx.arg_origin("1.empty-list-for-quiet-heights", uo, 1, "call:alloc::vec::Vec::new", depth=1)
        errs = b.error_blocks()
        bad, _ = ctx.ok_edges(ins, polarity="bad")
        ctx.add("1.insert-error-propagates", "REJECT", bool(bad) and all(b.path([ctx._edge_target(b, e)], b.return_blocks() + [hn[0].bb], cut_blocks=errs) is None for e in bad),
                "a failing insert aborts the sync step", sites=[ins.where()], site_key="ie")
        so = ctx.one_call(b, f"{GL}::sort_events_by_log_index")
        fm = ctx.one_call(b, "core::iter::traits::iterator::Iterator::filter_map")
        ctx.after_ok("1.sorted-before-grouping", so, [fm, ins])
        ctx.arg_origin("1.grouping-over-sorted-logs", fm, 0, f"call:{GL}::sort_events_by_log_index", depth=0)
        en = [c for c in b.calls_to("core::iter::traits::iterator::Iterator::next") if c not in hn]
        ctx.expect_sites("1.event-loop", en, exactly=1, what="loop over the parsed events")
        push = ctx.one_call(b, "alloc::vec::Vec::push")
        ent = ctx.one_call(b, "std::collections::hash::map::HashMap::entry")
        ctx.arg_origin("1.grouped-under-own-height", ent, 1, "call:fuel_core_types::services::relayer::Event::da_height", depth=0)
        esome, _ = ctx.ok_edges(en[0])
        p = b.path([ctx._edge_target(b, e) for e in esome], [en[0].bb], cut_blocks=[push.bb] + list(errs))
        ctx.add("1.every-event-kept-or-error", "MPT", p is None, "every parsed event is stored under its height or aborts with an error", sites=[push.where()], site_key="ev")
        cl = [x for x in u.bodies if x.calls_to("core::convert::TryFrom::try_from")]
        ctx.expect_sites("1.parse-closure", [x.defq for x in cl], exactly=1, what="log parsing closure")
        for x in cl:
            EL = "fuel_core_relayer::log::EthEventLog"
            ctx.dispatch_total("1.log-kind-dispatch", x, EL)
            tf = ctx.one_call(x, "core::convert::TryFrom::try_from")
            bad, _ = ctx.ok_edges(tf, polarity="bad")
            okk = bool(bad)
            for e in bad:
                t = ctx._edge_target(x, e)
                # the Err arm returns Some(Err(e)) (never None)
                none_b = [bb for bb, j, s in x.stmts() if bb in x.live and s["k"] == "assign" and s["rv"]["k"] == "agg" and s["rv"].get("variant") == "None" and s["rv"].get("adt") == "core::option::Option"]
                if x.path([t], none_b) is not None:
                    okk = False
            ctx.add("1.parse-error-not-dropped", "REJECT", okk, "a log that fails to parse yields Some(Err(..)), it is not silently filtered out", sites=[tf.where()], site_key="pe")
        sb = ctx.body_with(f"{GL}::sort_events_by_log_index", "core::iter::traits::iterator::Iterator::collect")
        su = F.unit(f"{GL}::sort_events_by_log_index")
        oke = [c for x in su.bodies for c in x.calls_to("core::option::Option::ok_or")]
        ctx.expect_sites("1.missing-log-index-is-error", oke, exactly=1, what="log_index.ok_or(error)")
        srt = [c for x in su.bodies for c in x.calls if c.bb in x.live and c.name in ("sort_by", "sort_by_key", "sort_unstable_by", "sort_unstable_by_key", "sort")]
        ctx.expect_sites("1.sorted", srt, exactly=1, what="sort of the logs by index")

    with ctx.clause("2.download_logs"):
        u = F.unit(f"{GL}::download_logs")
        aggs = []
        for x in u.bodies:
            for bb, j, s in x.stmts():
                if bb in x.live and s["k"] == "assign" and s["rv"]["k"] == "agg" and s["rv"].get("adt") == DL:
                    aggs.append((x, s))
        ctx.expect_sites("2.page-record", [s.get("line") for _, s in aggs], exactly=1, what="DownloadedLogs { start_height, last_height, logs }")
        PG = "fuel_core_relayer::service::state::EthSyncPage"
        for x, s in aggs:
            f = s["rv"]["fields"]
            # the closure receives oldest/latest as captured values computed in the parent body
            o = Origins(x, 1)
            st, la = o.atoms(s["rv"]["ops"][f.index("start_height")]), o.atoms(s["rv"]["ops"][f.index("last_height")])
            names = {a[1] for a in st | la if a[0] == "upvar"}
            par = [y for y in u.bodies if y is not x]
            okp = False
            for y in par:
                for nm, acc in (("oldest_block", "oldest"), ("latest_block", "latest")):
                    for l in y.locals_named(nm):
                        if atom_match(Origins(y, 0).atoms({"k": "copy", "l": l}), f"call:{PG}::{acc}"):
                            okp = True
            ctx.add("2.page-bounds-are-filter-bounds", "PROV", names >= {"oldest_block", "latest_block"} and okp,
                    "start/last heights of a page are page.oldest()/page.latest()", sites=[str(s.get("line"))], site_key="pb")
            adv = x.calls_to(f"{PG}::advance_and_resize")
            ctx.expect_sites("2.advance-in-success-closure", adv, exactly=1, what="page.advance_and_resize in the success closure")
        alladv = [c for x in u.bodies for c in x.calls_to(f"{PG}::advance_and_resize")]
        ctx.expect_sites("2.page-advanced-only-on-success", alladv, exactly=1, what="advance_and_resize sites (an RPC error must not advance the page)")
        gl = [c for x in u.bodies for c in x.calls if c.bb in x.live and c.name == "get_logs"]
        ctx.expect_sites("2.rpc-call", gl, exactly=1, what="eth_node.get_logs(filter)")
        fb = [c for x in u.bodies for c in x.calls if c.bb in x.live and c.name in ("from_block", "to_block")]
        ctx.expect_sites("2.filter-bounds", fb, exactly=2, what="filter from_block/to_block")
        for c in fb:
            want = "oldest" if c.name == "from_block" else "latest"
            ctx.arg_origin(f"2.filter-{c.name}", c, 1, f"call:{PG}::{want}", depth=1)

    with ctx.clause("3.insert_events"):
        us = F.find_units("<* as fuel_core_relayer::ports::RelayerDb>::insert_events", "fuel_core_relayer")
        if len(us) != 1:
            raise AnchorMissing(f"impl RelayerDb::insert_events: {len(us)}")
        b = us[0].root
        ins = [c for c in ctx.table_ops("EventsHistory", CR, ops=("insert",)) if c.body is b]
        ctx.expect_sites("3.history-insert", ins, exactly=1, what="EventsHistory.insert(height, events)")
        ne = ctx.cmp_tests(b, "Ne", lhs="param:2", rhs="call:fuel_core_types::services::relayer::Event::da_height", depth=1)
        ctx.test_leads_to_error("3.foreign-height-event-rejects", b, ne, truth=True, detail="an event of another DA height is never stored under this key")
        nxt = ctx.one_call(b, "core::iter::traits::iterator::Iterator::next")
        ctx.dominated("3.checked-before-insert", b, ins, by_blocks=[nxt])
        some, _ = ctx.ok_edges(nxt)
        ctx.add("3.every-event-checked", "MPT", b.path([ctx._edge_target(b, e) for e in some], [nxt.bb] + [c.bb for c in ins], cut_blocks=[sw.bb for sw, _ in ne] + list(b.error_blocks())) is None,
                "every event of the batch is compared with the key height", sites=[f"bb{sw.bb}" for sw, _ in ne], site_key="chk")
        for c in ins:
            ctx.arg_origin("3.insert-under-given-height", c, 1, "param:2", depth=0)
            ctx.arg_origin("3.insert-given-events", c, 2, "param:3", depth=0)
        cm = b.calls_to("fuel_core_storage::structured_storage::StructuredStorage::commit", "fuel_core_relayer::ports::DatabaseTransaction::commit")
        ctx.expect_sites("3.commit", cm, exactly=1, what="db_tx.commit()")
        for c in ins:
            ctx.paired("3.insert-then-commit", c, cm, on="ok")
        lt = ctx.rel_tests(b, "Lt")
        ctx.test_leads_to_error("3.height-regression-rejects", b, lt, truth=True, detail="a decreasing latest DA height is an error")
        ctx.only_table_writers("3.history-writers", "EventsHistory", {us[0].q: {"insert"}}, CR)
