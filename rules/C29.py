"""C29 — the relayer records every DA block's events exactly once (DESIGN §7 C29)."""
from core import AnchorMissing, Origins, atom_match

LEVEL = "other"
EXPLANATION = """
Structural clauses of C29 in fuel_core_relayer, for all paths: (1) write_logs: for each downloaded
page the insertion loop ranges over RangeInclusive(start_height, last_height) of that page and calls
insert_events for *every* height of the range (no skip between the loop head and the call; heights
without events get the empty list); logs are sorted by log index before they are grouped (ok-edge);
parse errors, a missing log_index and insert errors all reach error exits; the log kinds are matched
without wildcard; events are grouped under their own da_height(); (2) download_logs: a page's
start/last heights are the oldest()/latest() used in its filter, the next page comes from
advance_and_resize, and the page is advanced only in the success closure (an RPC error does not skip
a page); (3) RelayerDb::insert_events: every event's da_height must equal the key (else error)
before EventsHistory is written; insert and commit are in one storage transaction; a decreasing
latest height is an error; (4) pager contiguity, structural part: EthSyncPage::advance /
advance_and_resize compute the next window as [start + old size, min(end + next size, gap end)] with the
old size read before it is overwritten, return None when empty, and EthSyncGap::page starts at oldest()
with last = start + (size - 1) clamped to latest(); (5) sync start: the initial synced height is the
stored finalized height or da_deploy_height - 1, EthState.local is that observed height, and the gap
handed to download_logs is [local + 1, remote]. (7) run(): set_local / update_synced only on the Some edge of the stored finalized height, with that height itself (no default), read after the download attempt.
"""
NOT_DECIDED = """Numeric behaviour of the pager beyond the operand structure (saturation at u64::MAX, AdaptivePageSizer sizes); the Ethereum node's answers."""

CR = ["fuel_core_relayer"]
GL = "fuel_core_relayer::service::get_logs"
DL = f"{GL}::DownloadedLogs"


def check(ctx):
    F = ctx.F
    with ctx.clause("1.write_logs"):
        u = F.unit(f"{GL}::write_logs")
        b = ctx.body_with(u, "fuel_core_relayer::ports::RelayerDb::insert_events")
        ins = ctx.one_call(b, "fuel_core_relayer::ports::RelayerDb::insert_events")
        rng = ctx.one_call(b, "core::ops::range::RangeInclusive::new")
        ctx.arg_origin("1.range-from-page-start", rng, 0, f"field:{DL}.start_height", depth=1)
        ctx.arg_origin("1.range-to-page-last", rng, 1, f"field:{DL}.last_height", depth=1)
        hn = [c for c in b.calls_to("core::iter::traits::iterator::Iterator::next") if atom_match(Origins(b, 0).atoms(c.args[0]), "call:core::ops::range::RangeInclusive::new")]
        ctx.expect_sites("1.height-loop", hn, exactly=1, what="loop over the heights of the page")
        some, _ = ctx.ok_edges(hn[0])
        starts = [ctx._edge_target(b, e) for e in some]
        ctx.add("1.every-height-inserted", "MPT", b.path(starts, [hn[0].bb] + b.return_blocks(), cut_blocks=[ins.bb]) is None,
                "insert_events is called for every height of the page (no skipped height)", sites=[ins.where()], site_key="each")
        ctx.arg_origin("1.insert-for-loop-height", ins, 1, "call:core::iter::traits::iterator::Iterator::next", depth=1)
        ctx.arg_origin("1.insert-events-of-that-height", ins, 2, "call:std::collections::hash::map::HashMap::get", depth=1)
        uo = ctx.one_call(b, "core::option::Option::unwrap_or")
        ctx.arg_origin("1.empty-list-for-quiet-heights", uo, 1, "call:alloc::vec::Vec::new", depth=1)
        errs = b.error_blocks()
        bad, _ = ctx.ok_edges(ins, polarity="bad")
        ctx.add("1.insert-error-propagates", "REJECT", bool(bad) and all(b.path([ctx._edge_target(b, e)], b.return_blocks() + [hn[0].bb], cut_blocks=errs) is None for e in bad),
                "a failing insert aborts the sync step", sites=[ins.where()], site_key="ie")
        so = ctx.one_call(b, f"{GL}::sort_events_by_log_index")
        fm = ctx.one_call(b, "core::iter::traits::iterator::Iterator::filter_map")
        ctx.after_ok("1.sorted-before-grouping", so, [fm, ins])
        ctx.arg_origin("1.grouping-over-sorted-logs", fm, 0, f"call:{GL}::sort_events_by_log_index", depth=0)
        en = [c for c in b.calls_to("core::iter::traits::iterator::Iterator::next") if c not in hn]
        ctx.expect_sites("1.event-loop", en, exactly=1, what="loop over the parsed events")
        push = ctx.one_call(b, "alloc::vec::Vec::push")
        ent = ctx.one_call(b, "std::collections::hash::map::HashMap::entry")
        ctx.arg_origin("1.grouped-under-own-height", ent, 1, "call:fuel_core_types::services::relayer::Event::da_height", depth=0)
        esome, _ = ctx.ok_edges(en[0])
        p = b.path([ctx._edge_target(b, e) for e in esome], [en[0].bb], cut_blocks=[push.bb] + list(errs))
        ctx.add("1.every-event-kept-or-error", "MPT", p is None, "every parsed event is stored under its height or aborts with an error", sites=[push.where()], site_key="ev")
        cl = [x for x in u.bodies if x.calls_to("core::convert::TryFrom::try_from")]
        ctx.expect_sites("1.parse-closure", [x.defq for x in cl], exactly=1, what="log parsing closure")
        for x in cl:
            EL = "fuel_core_relayer::log::EthEventLog"
            ctx.dispatch_total("1.log-kind-dispatch", x, EL)
            tf = ctx.one_call(x, "core::convert::TryFrom::try_from")
            bad, _ = ctx.ok_edges(tf, polarity="bad")
            okk = bool(bad)
            for e in bad:
                t = ctx._edge_target(x, e)
                # the Err arm returns Some(Err(e)) (never None)
                none_b = [bb for bb, j, s in x.stmts() if bb in x.live and s["k"] == "assign" and s["rv"]["k"] == "agg" and s["rv"].get("variant") == "None" and s["rv"].get("adt") == "core::option::Option"]
                if x.path([t], none_b) is not None:
                    okk = False
            ctx.add("1.parse-error-not-dropped", "REJECT", okk, "a log that fails to parse yields Some(Err(..)), it is not silently filtered out", sites=[tf.where()], site_key="pe")
        sb = ctx.body_with(f"{GL}::sort_events_by_log_index", "core::iter::traits::iterator::Iterator::collect")
        su = F.unit(f"{GL}::sort_events_by_log_index")
        oke = [c for x in su.bodies for c in x.calls_to("core::option::Option::ok_or")]
        ctx.expect_sites("1.missing-log-index-is-error", oke, exactly=1, what="log_index.ok_or(error)")
        srt = [c for x in su.bodies for c in x.calls if c.bb in x.live and c.name in ("sort_by", "sort_by_key", "sort_unstable_by", "sort_unstable_by_key", "sort")]
        ctx.expect_sites("1.sorted", srt, exactly=1, what="sort of the logs by index")

    with ctx.clause("2.download_logs"):
        u = F.unit(f"{GL}::download_logs")
        aggs = []
        for x in u.bodies:
            for bb, j, s in x.stmts():
                if bb in x.live and s["k"] == "assign" and s["rv"]["k"] == "agg" and s["rv"].get("adt") == DL:
                    aggs.append((x, s))
        ctx.expect_sites("2.page-record", [s.get("line") for _, s in aggs], exactly=1, what="DownloadedLogs { start_height, last_height, logs }")
        PG = "fuel_core_relayer::service::state::EthSyncPage"
        for x, s in aggs:
            f = s["rv"]["fields"]
            # the closure receives oldest/latest as captured values computed in the parent body
            st = ctx.resolved_atoms(u, x, s["rv"]["ops"][f.index("start_height")], 1)
            la = ctx.resolved_atoms(u, x, s["rv"]["ops"][f.index("last_height")], 1)
            ctx.add("2.page-bounds-are-filter-bounds", "PROV", atom_match(st, f"call:{PG}::oldest") and not atom_match(st, f"call:{PG}::latest") and
                    atom_match(la, f"call:{PG}::latest") and not atom_match(la, f"call:{PG}::oldest"),
                    "start/last heights of a page are page.oldest()/page.latest()", sites=[str(s.get("line"))], site_key="pb")
            adv = x.calls_to(f"{PG}::advance_and_resize")
            ctx.expect_sites("2.advance-in-success-closure", adv, exactly=1, what="page.advance_and_resize in the success closure")
        alladv = [c for x in u.bodies for c in x.calls_to(f"{PG}::advance_and_resize")]
        ctx.expect_sites("2.page-advanced-only-on-success", alladv, exactly=1, what="advance_and_resize sites (an RPC error must not advance the page)")
        gl = [c for x in u.bodies for c in x.calls if c.bb in x.live and c.name == "get_logs"]
        ctx.expect_sites("2.rpc-call", gl, exactly=1, what="eth_node.get_logs(filter)")
        fb = [c for x in u.bodies for c in x.calls if c.bb in x.live and c.name in ("from_block", "to_block")]
        ctx.expect_sites("2.filter-bounds", fb, exactly=2, what="filter from_block/to_block")
        for c in fb:
            want = "oldest" if c.name == "from_block" else "latest"
            ctx.arg_origin(f"2.filter-{c.name}", c, 1, f"call:{PG}::{want}", depth=1)

    with ctx.clause("3.insert_events"):
        us = F.find_units("<* as fuel_core_relayer::ports::RelayerDb>::insert_events", "fuel_core_relayer")
        if len(us) != 1:
            raise AnchorMissing(f"impl RelayerDb::insert_events: {len(us)}")
        b = us[0].root
        ins = [c for c in ctx.table_ops("EventsHistory", CR, ops=("insert",)) if c.body is b]
        ctx.expect_sites("3.history-insert", ins, exactly=1, what="EventsHistory.insert(height, events)")
        ne = ctx.cmp_tests(b, "Ne", lhs="param:2", rhs="call:fuel_core_types::services::relayer::Event::da_height", depth=1)
        ctx.test_leads_to_error("3.foreign-height-event-rejects", b, ne, truth=True, detail="an event of another DA height is never stored under this key")
        nxt = ctx.one_call(b, "core::iter::traits::iterator::Iterator::next")
        ctx.dominated("3.checked-before-insert", b, ins, by_blocks=[nxt])
        some, _ = ctx.ok_edges(nxt)
        ctx.add("3.every-event-checked", "MPT", b.path([ctx._edge_target(b, e) for e in some], [nxt.bb] + [c.bb for c in ins], cut_blocks=[sw.bb for sw, _ in ne] + list(b.error_blocks())) is None,
                "every event of the batch is compared with the key height", sites=[f"bb{sw.bb}" for sw, _ in ne], site_key="chk")
        for c in ins:
            ctx.arg_origin("3.insert-under-given-height", c, 1, "param:2", depth=0)
            ctx.arg_origin("3.insert-given-events", c, 2, "param:3", depth=0)
        cm = b.calls_to("fuel_core_storage::structured_storage::StructuredStorage::commit", "fuel_core_relayer::ports::DatabaseTransaction::commit")
        ctx.expect_sites("3.commit", cm, exactly=1, what="db_tx.commit()")
        for c in ins:
            ctx.paired("3.insert-then-commit", c, cm, on="ok")
        lt = ctx.rel_tests(b, "Lt")
        ctx.test_leads_to_error("3.height-regression-rejects", b, lt, truth=True, detail="a decreasing latest DA height is an error")
        ctx.only_table_writers("3.history-writers", "EventsHistory", {us[0].q: {"insert"}}, CR)

    # -- 4. pager: consecutive pages are contiguous (structural part of the window arithmetic) --
    with ctx.clause("4.pager-contiguity"):
        ST = "fuel_core_relayer::service::state"
        PGQ = f"{ST}::EthSyncPage"
        SADD = ("u64::saturating_add", "core::num::<impl u64>::saturating_add")
        SSUB = ("u64::saturating_sub", "core::num::<impl u64>::saturating_sub")
        for fn, end_step in (("advance", f"field:{PGQ}.size"), ("advance_and_resize", "param:2")):
            b = F.unit(f"{PGQ}::{fn}").root
            dele = [c for c in b.calls_to(f"{PGQ}::advance") if c.bb in b.live] if fn != "advance" else []
            if dele and not b.calls_to("core::ops::range::RangeInclusive::new"):
                szw = [bb for bb, j, s in b.stmts() if bb in b.live and s["k"] == "assign" and s["pl"].get("p") and s["pl"]["p"][-1] == ".size"]
                ctx.add(f"4.{fn}-old-size-read-before-resize", "ORDER", not any(w == dele[0].bb or b.path([w], [dele[0].bb]) is not None for w in szw),
                        f"{fn} delegates to advance() after overwriting self.size: the next window starts one *new* page after the previous start, "
                        "so heights are skipped (growth) or written twice (shrink)", sites=[dele[0].where()], site_key=f"{fn}:order")
                continue
            rng = ctx.one_call(b, "core::ops::range::RangeInclusive::new")
            o = Origins(b, 0)
            sa = [c for c in b.calls_to(*SADD) if c.bb in b.live]
            starts = [c for c in sa if atom_match(o.atoms(c.args[0]), "call:core::ops::range::RangeInclusive::start")]
            ends = [c for c in sa if atom_match(o.atoms(c.args[0]), "call:core::ops::range::RangeInclusive::end")]
            ctx.expect_sites(f"4.{fn}-start-step", starts, exactly=1, what="current.start().saturating_add(..)")
            ctx.expect_sites(f"4.{fn}-end-step", ends, exactly=1, what="current.end().saturating_add(..)")
            # the next window starts one old page after the previous start: start + self.size, with self.size
            # read before any write to it (the new size applies to the *following* window only)
            ctx.arg_origin(f"4.{fn}-start-advances-by-old-size", starts[0], 1, f"field:{PGQ}.size", depth=0)
            szw = [bb for bb, j, s in b.stmts() if bb in b.live and s["k"] == "assign" and s["pl"].get("p") and s["pl"]["p"][-1] == ".size"]
            ctx.add(f"4.{fn}-old-size-read-before-resize", "ORDER", all(w != starts[0].bb and b.path([w], [starts[0].bb]) is None for w in szw),
                    "self.size is not overwritten before the new window start is computed", sites=[starts[0].where()], site_key=f"{fn}:order")
            ctx.arg_origin(f"4.{fn}-end-advances-by-next-size", ends[0], 1, end_step, depth=0)
            ctx.arg_origin(f"4.{fn}-window-start", rng, 0, "call:u64::saturating_add", depth=0)
            mn = ctx.one_call(b, "core::cmp::Ord::min")
            ctx.arg_origin(f"4.{fn}-window-end-clamped", rng, 1, "call:core::cmp::Ord::min", depth=0)
            ctx.arg_origin(f"4.{fn}-clamp-to-gap-end", mn, 1, f"field:{PGQ}.end", depth=0)
            fw = [s for bb, j, s in b.stmts() if bb in b.live and s["k"] == "assign" and s["pl"].get("p") and s["pl"]["p"][-1] == ".current"]
            ctx.expect_sites(f"4.{fn}-window-stored", [str(s.get("line")) for s in fw], exactly=1, what="self.current = next window")
            ts = ctx.one_call(b, "core::bool::<impl bool>::then_some", "bool::then_some")
            ctx.arg_origin(f"4.{fn}-none-when-empty", ts, 0, f"call:{PGQ}::is_empty", depth=0)
        # first page of a gap starts at the oldest height and is clamped to the latest
        pb = F.unit(f"{ST}::EthSyncGap::page").root
        rng = ctx.one_call(pb, "core::ops::range::RangeInclusive::new")
        ctx.arg_origin("4.first-page-starts-at-oldest", rng, 0, f"call:{ST}::EthSyncGap::oldest", depth=0)
        ctx.arg_origin("4.first-page-clamped", rng, 1, "call:core::cmp::Ord::min", depth=0)
        mn = ctx.one_call(pb, "core::cmp::Ord::min")
        ctx.arg_origin("4.first-page-clamp-to-latest", mn, 1, f"call:{ST}::EthSyncGap::latest", depth=0)
        ss = ctx.one_call(pb, *SSUB)
        ctx.const_arg("4.first-page-last-is-start-plus-size-minus-1", ss, 1, 1)
        for acc, idx in (("oldest", ".0"), ("latest", ".1")):
            ab = F.unit(f"{ST}::EthSyncGap::{acc}").root
            rd = [s for bb, j, s in ab.stmts() if s["k"] == "assign" and s["pl"]["l"] == 0]
            okr = len(rd) == 1 and rd[0]["rv"]["k"] == "use" and rd[0]["rv"]["op"].get("p", [None])[-1] == idx
            ctx.add(f"4.gap-{acc}-is-field{idx}", "PROV", okr, f"EthSyncGap::{acc}() returns self{idx}", sites=[str(rd[0].get('line')) if rd else "?"], site_key=acc)

    # -- 5. where syncing starts: the first gap begins right after the last stored height, or at the deploy height --
    with ctx.clause("5.sync-start"):
        ST = "fuel_core_relayer::service::state"
        nu = F.unit("fuel_core_relayer::service::NotInitializedTask::new")
        b = nu.root
        uoe = ctx.one_call(b, "core::option::Option::unwrap_or_else")
        ctx.arg_origin("5.initial-height-from-storage", uoe, 0, "call:fuel_core_relayer::ports::RelayerDb::get_finalized_da_height", depth=0)
        cls = [x for x in nu.bodies if x is not b]
        ctx.expect_sites("5.fallback-closure", [x.defq for x in cls], exactly=1, what="fallback closure for an empty database")
        cb = cls[0]
        sub = ctx.one_call(cb, "u64::saturating_sub", "core::num::<impl u64>::saturating_sub")
        ctx.arg_origin("5.fallback-from-deploy-height", sub, 0, "upvar:config__da_deploy_height__0", depth=0)
        ctx.const_arg("5.fallback-is-deploy-height-minus-1", sub, 1, 1)
        ctx.flows("5.fallback-value-returned", sub, to_return=True)
        ps = [s for bb, j, s in b.stmts() if bb in b.live and s["k"] == "assign" and s["rv"]["k"] == "agg" and s["rv"].get("variant") == "PartiallySynced"]
        ctx.expect_sites("5.initial-sync-state", [str(s.get("line")) for s in ps], exactly=1, what="SyncState::PartiallySynced(initial height)")
        o = Origins(b, 0)
        ctx.add("5.initial-state-holds-that-height", "PROV", bool(ps) and atom_match(o.atoms(ps[0]["rv"]["ops"][0]), "call:core::option::Option::unwrap_or_else"),
                "the initial synced height is the stored height or the fallback", sites=[str(ps[0].get("line")) if ps else "?"], site_key="init")
        # the gap starts at local + 1
        nsu = F.unit(f"{ST}::EthState::needs_to_sync_eth")
        gb = ctx.body_with(nsu, f"{ST}::EthSyncGap::new")
        gn = ctx.one_call(gb, f"{ST}::EthSyncGap::new")
        sa = ctx.one_call(gb, "u64::saturating_add", "core::num::<impl u64>::saturating_add")
        ctx.arg_origin("5.gap-starts-after-local", sa, 0, f"field:{ST}::EthState.local", depth=1)
        ctx.const_arg("5.gap-starts-at-local-plus-1", sa, 1, 1)
        ctx.arg_origin("5.gap-start-arg", gn, 0, "call:u64::saturating_add", depth=0)
        ctx.arg_origin("5.gap-ends-at-remote", gn, 1, f"field:{ST}::EthState.remote", depth=1)
        # local is what the task observed (the synced height), remote the finalized DA height
        be = ctx.body_with(f"{ST}::state_builder::build_eth", f"{ST}::state_builder::EthLocal::observed")
        ag = [s for bb, j, s in be.stmts() if bb in be.live and s["k"] == "assign" and s["rv"]["k"] == "agg" and s["rv"].get("adt") == f"{ST}::EthState"]
        ctx.expect_sites("5.state-built", [str(s.get("line")) for s in ag], exactly=1, what="EthState { remote, local }")
        if ag:
            f = ag[0]["rv"]["fields"]
            oo = Origins(be, 1)
            ctx.add("5.local-is-observed", "PROV", atom_match(oo.atoms(ag[0]["rv"]["ops"][f.index("local")]), f"call:{ST}::state_builder::EthLocal::observed"),
                    "EthState.local = observed()", sites=[str(ag[0].get("line"))], site_key="local")
            ctx.add("5.remote-is-finalized", "PROV", atom_match(oo.atoms(ag[0]["rv"]["ops"][f.index("remote")]), f"call:{ST}::state_builder::EthRemote::finalized"),
                    "EthState.remote = finalized()", sites=[str(ag[0].get("line"))], site_key="remote")

    # -- 7. the synced height is only moved to a height the storage really holds --
    with ctx.clause("7.synced-height-follows-storage"):
        RUN = "fuel_core_relayer::service::run"
        ru = F.unit(f"{RUN}::run")
        rb = ctx.body_with(ru, f"{RUN}::RelayerData::storage_da_block_height")
        sh = ctx.one_call(rb, f"{RUN}::RelayerData::storage_da_block_height")
        sl = ctx.one_call(rb, "fuel_core_relayer::service::state::EthState::set_local")
        us = ctx.one_call(rb, f"{RUN}::RelayerData::update_synced")
        some, _ = ctx.ok_edges(sh)
        ctx.add("7.local-updated-only-if-storage-has-a-height", "GUARD", bool(some) and rb.path([sh.target], [sl.bb, us.bb], cut_edges=set(some)) is None,
                "set_local / update_synced run only on the Some edge of storage_da_block_height(): an empty database keeps the initial synced height (deploy height - 1) "
                "instead of dropping to 0", sites=[sl.where(), us.where()], site_key="some")
        at = Origins(rb, 1).atoms(sl.args[1])
        dfl = [c for c in rb.calls if c.bb in rb.live and c.name in ("unwrap_or_default", "unwrap_or", "unwrap_or_else") and
               atom_match(Origins(rb, 1).atoms(c.args[0]), f"call:{RUN}::RelayerData::storage_da_block_height")]
        ctx.add("7.local-is-the-stored-height", "PROV", atom_match(at, f"call:{RUN}::RelayerData::storage_da_block_height") and not dfl,
                "the new local height is the stored finalized height itself (no default substituted for a missing one)", sites=[sl.where()] + [c.where() for c in dfl], site_key="val")
        dl = ctx.one_call(rb, f"{RUN}::RelayerData::download_logs")
        ctx.add("7.storage-read-after-download", "ORDER", rb.path([dl.target], [sh.bb]) is not None and rb.path([sh.target], [dl.bb]) is None,
                "the stored height is read after the download attempt (also when it failed half-way)", sites=[sh.where()], site_key="ord")
        ctx.flows("7.download-result-returned", dl, to_return=True)
