"""C30 — the producer advances the DA height to the largest fitting prefix (guards; DESIGN §7 C30)."""
from core import AnchorMissing, Origins, atom_match, place_fields

LEVEL = "other"
EXPLANATION = """
Guard clauses of C30 in Producer::select_new_da_height, for all paths: a finalized height below the
parent's DA height is an error; Ok(highest) is returned early only under highest == previous; the
loop ranges over RangeInclusive(previous + 1, highest); per height the relayed gas cost and transaction
count are accumulated (saturating) from get_cost_and_transactions_number_for_block(height) before the
limit test; `new_best = height` is assigned only on the false edge of `total_cost > gas_limit ||
total_transactions > transactions_limit` (the true edge leaves the loop), so the result never passes a
height whose prefix exceeds a limit; a result equal to the previous height (nothing fits) is an error;
the produced header's da_height is assigned only from this function's result.
"""
NOT_DECIDED = """Numeric optimality beyond "stop at the first overflow"; the relayer's answers."""

CR = ["fuel_core_producer"]
P = "fuel_core_producer::block_producer::Producer"
REL = "fuel_core_producer::ports::Relayer"


def check(ctx):
    F = ctx.F
    with ctx.clause("1.select_new_da_height"):
        b = ctx.body_with(f"{P}::select_new_da_height", f"{REL}::get_cost_and_transactions_number_for_block")
        wait = ctx.one_call(b, f"{REL}::wait_for_at_least_height")
        cost = ctx.one_call(b, f"{REL}::get_cost_and_transactions_number_for_block")
        lt = ctx.cmp_tests(b, "Lt", lhs=f"call:{REL}::wait_for_at_least_height", rhs=ctx.pspec(F.unit(f"{P}::select_new_da_height"), 3), depth=1)
        ctx.test_leads_to_error("1.finalized-below-parent-rejects", b, lt, truth=True, detail="the DA height never decreases")
        ctx.guarded("1.loop-only-if-not-below", b, [cost], lt, truth=False)
        rng = ctx.one_call(b, "core::ops::range::RangeInclusive::new")
        ctx.arg_origin("1.range-starts-after-parent", rng, 0, "call:u64::saturating_add", depth=0)
        ctx.arg_origin("1.range-ends-at-finalized", rng, 1, f"call:{REL}::wait_for_at_least_height", depth=1)
        adds = b.calls_to("u64::saturating_add")
        nxt = ctx.one_call(b, "core::iter::traits::iterator::Iterator::next")
        start_add = [c for c in adds if b.path([c.bb], [rng.bb]) is not None and b.path([nxt.bb], [c.bb]) is None]
        ctx.expect_sites("1.previous-plus-one", start_add, exactly=1, what="previous_da_height.saturating_add(1)")
        for c in start_add:
            ctx.const_arg("1.plus-one", c, 1, 1)
        acc = [c for c in adds if c not in start_add]
        ctx.expect_sites("1.accumulators", acc, exactly=2, what="total_cost / total_transactions accumulation")
        for c in acc:
            ctx.arg_origin(f"1.accumulates-relayer-info-bb{c.bb}", c, 1, f"call:{REL}::get_cost_and_transactions_number_for_block", depth=1)
        ctx.arg_origin("1.cost-of-loop-height", cost, 1, "call:core::iter::traits::iterator::Iterator::next", depth=1)
        over = ctx.rel_tests(b, "Gt")
        over = [(sw, pol) for sw, pol in over if b.path([cost.bb], [sw.bb]) is not None]
        ctx.expect_sites("1.limit-tests", [f"bb{sw.bb}" for sw, _ in over], exactly=2, what="`total_cost > gas_limit` and `total_transactions > transactions_limit`")
        o = Origins(b, 0)
        ws = []
        # the running best height: the returned local that is initialised before the loop and re-assigned inside it
        ret_locals = ctx.returned_locals(b)
        in_loop = lambda bb: b.path([nxt.bb], [bb]) is not None and b.path([bb], [nxt.bb]) is not None
        whole = {}
        for bb, j, s in b.stmts():
            if bb in b.live and s["k"] == "assign" and s["pl"]["l"] in ret_locals and s["pl"]["l"] != 0 and not s["pl"].get("p"):
                whole.setdefault(s["pl"]["l"], []).append((bb, s))
        for l, asg in whole.items():
            if any(not in_loop(bb) for bb, _ in asg) and any(in_loop(bb) for bb, _ in asg):
                ws += [(bb, s) for bb, s in asg if in_loop(bb)]
        ctx.expect_sites("1.new-best-assignment", [s.get("line") for _, s in ws], exactly=1, what="new_best = DaBlockHeight(height) inside the loop")
        ctx.guarded("1.advance-only-within-limits", b, [bb for bb, _ in ws], over, truth=False,
                    detail="the DA height advances to `height` only if the prefix up to it fits both limits")
        for sw, pol in over:
            for lab in sw.edges_for_truth(True if pol else False):
                t = ctx._edge_target(b, (sw.bb, lab))
                ctx.add(f"1.over-limit-stops-bb{sw.bb}", "GUARD", b.path([t], [bb for bb, _ in ws] + [cost.bb]) is None,
                        "once a limit is exceeded no further height is considered", sites=[f"bb{sw.bb}"], site_key=f"brk{sw.bb}")
        for c in acc:
            ctx.add(f"1.accumulated-before-test-bb{c.bb}", "ORDER", all(b.path([c.bb], [sw.bb], cut_blocks=[nxt.bb]) is not None for sw, _ in over) and
                    all(b.path([sw.bb], [c.bb], cut_blocks=[nxt.bb]) is None for sw, _ in over), "the totals include the current height before the limit test",
                    sites=[c.where()], site_key=f"acc{c.bb}")
        eqs = ctx.rel_tests(b, "Eq")
        early = [(sw, pol) for sw, pol in eqs if b.path([sw.bb], [nxt.bb]) is not None]
        late = [(sw, pol) for sw, pol in eqs if b.path([nxt.bb], [sw.bb]) is not None]
        ctx.expect_sites("1.unchanged-test", [f"bb{sw.bb}" for sw, _ in late], exactly=1, what="`new_best == previous_da_height` after the loop")
        ctx.test_leads_to_error("1.nothing-fits-rejects", b, late, truth=True, detail="production fails rather than exceed the limits")
        oks = ctx.ok_return_blocks(b)
        ctx.expect_sites("1.ok-returns", sorted(oks), exactly=2, what="Ok(highest) early return and Ok(new_best)")
        ctx.only_callers("1.callers", f"{P}::select_new_da_height", [f"{P}::new_header_with_new_da_height"], CR)

    with ctx.clause("2.header-uses-selected-height"):
        b = ctx.body_with(f"{P}::new_header_with_new_da_height", f"{P}::select_new_da_height")
        sel = ctx.one_call(b, f"{P}::select_new_da_height")
        AH = "fuel_core_types::blockchain::header::ApplicationHeader"
        ws = [(bb, s) for bb, j, s in b.stmts() if bb in b.live and s["k"] == "assign" and place_fields(s["pl"]) and place_fields(s["pl"])[-1] == (AH, "da_height")]
        ctx.expect_sites("2.da-height-write", [s.get("line") for _, s in ws], exactly=1, what="block_header.da_height = new_da_height")
        for bb, s in ws:
            at = Origins(b, 1).atoms(s["rv"]["op"]) if s["rv"]["k"] == "use" else set()
            ctx.add("2.da-height-from-selection", "PROV", atom_match(at, f"call:{P}::select_new_da_height"), "the header's DA height is the selected one", sites=[str(s.get("line"))], site_key="da")
        ctx.after_ok("2.written-only-after-selection-ok", sel, [bb for bb, _ in ws])
        ctx.arg_origin("2.selection-from-parent-da-height", sel, 2, f"field:{AH}.da_height", depth=1)
        ctx.arg_origin("2.gas-limit-from-consensus-params", sel, 1, "call:fuel_tx::transaction::consensus_parameters::ConsensusParameters::block_gas_limit", depth=1)
