"""C10 — storage transactions have read-your-writes and exact commit semantics (DESIGN §7 C10)."""
from core import AnchorMissing, Origins, atom_match

LEVEL = "other"
EXPLANATION = """
Structural clauses of C10 in fuel_core_storage::transactional, for all paths: (1) SIBLING over every
method of `impl KeyValueInspect for InMemoryTransaction<S>` (enumerated from the trait): the pending
change for the key is looked up first (get_from_changes dominates every other call), the
WriteOperation found is matched without wildcard, and the *same-named* method of the underlying
storage is called only on the `no pending change` edge; (2) SIBLING over `impl KeyValueMutate` and
`BatchOperations`: every method records its effect in self.changes and touches the underlying storage
at most by the read `get` (replace / take, on the vacant edge) — the parent is never mutated before
commit; the impl's where-clause gives S only KeyValueInspect (mutation of the parent is not
expressible); (3) commit: the parent's commit_changes is called only from StorageTransaction::commit
with the taken (mem::take) change set; commit requires Storage: Modifiable (bound); (4) merging into
a transaction (`Modifiable for InMemoryTransaction`): ConflictPolicy matched without wildcard; under
Fail an occupied entry is an error exit and a vacant one is inserted; under Overwrite the entry is
inserted. Every KeyValueMutate method of InMemoryTransaction records a pending operation of the right kind (Insert for put/replace/write, Remove for take/delete) on every successful path and never removes an entry from the change set. (5) merge direction of commit_changes: no mem::swap/replace/take; the insert target derives from self.changes, the inserted operations and both loops from the incoming changes.
"""
NOT_DECIDED = """Offsets in read_exact / read_zerofill; the whole-column-vacant fast path (inserts the incoming
column without per-key checks — correct because the column is empty; noted)."""

CR = ["fuel_core_storage"]
T = "fuel_core_storage::transactional"
IMT = f"{T}::InMemoryTransaction"
KVI = "fuel_core_storage::kv_store::KeyValueInspect"
KVM = "fuel_core_storage::kv_store::KeyValueMutate"
WO = "fuel_core_storage::kv_store::WriteOperation"


def check(ctx):
    F = ctx.F
    with ctx.clause("1.read-your-writes"):
        methods = [m["n"] for m in F.trait(KVI)["methods"]]
        ctx.add("1.inspect-methods", "COUNT", set(methods) >= {"exists", "size_of_value", "get", "read_exact", "read_zerofill"}, f"KeyValueInspect methods: {methods}",
                sites=methods, site_key="methods")
        impls = F.impls("fuel_core_storage", trait=KVI, self_q=IMT)
        ctx.expect_sites("1.inspect-impl", [i["self"] for i in impls], exactly=1, what="impl KeyValueInspect for InMemoryTransaction")
        implemented = impls[0]["methods"] if impls else []
        for m in methods:
            if m not in implemented:
                dflt = [x for x in F.trait(KVI)["methods"] if x["n"] == m and x["default"]]
                ctx.add(f"1.{m}-implemented", "SIBLING", False, f"KeyValueInspect::{m} is not overridden for InMemoryTransaction: the default would bypass pending changes" if dflt else f"{m} missing",
                        site_key=m)
                continue
            b = F.unit(f"<{IMT} as {KVI}>::{m}").root
            g = b.calls_to(f"{IMT}::get_from_changes")
            ctx.expect_sites(f"1.{m}-looks-up-pending-change", g, exactly=1, what="get_from_changes")
            under = [c for c in b.calls if c.bb in b.live and c.path.startswith(KVI + "::")]
            ctx.add(f"1.{m}-delegates-same-method", "SIBLING", len(under) == 1 and under[0].path == f"{KVI}::{m}" and
                    atom_match(Origins(b, 0).atoms(under[0].args[0]), f"field:{IMT}.storage"),
                    f"{m} falls back to storage.{m} (found {[c.path.rsplit('::', 1)[-1] for c in under]})", sites=[c.where() for c in under], site_key=m)
            ctx.dominated(f"1.{m}-pending-first", b, under, by_blocks=g)
            opt = ctx.discr_switches(b, "core::option::Option", f"call:{IMT}::get_from_changes")
            none_edges = [(s.bb, lab) for s in opt for lab in s.edge_for_value(0)]
            ctx.dominated(f"1.{m}-storage-only-if-no-pending-change", b, under, by_edges=none_edges,
                          detail="a pending write or removal shadows the underlying storage")
            ctx.dispatch_total(f"1.{m}-operation-dispatch", b, WO)
        ctx.only_callers("1.get_from_changes-callers", f"{IMT}::get_from_changes", [f"<{IMT} as {KVI}>::*"], CR, min_sites=5)

    with ctx.clause("2.writes-stay-pending"):
        for tr, meths in ((KVM, [m["n"] for m in F.trait(KVM)["methods"]]), ("fuel_core_storage::kv_store::BatchOperations", None)):
            impls = F.impls("fuel_core_storage", trait=tr, self_q=IMT)
            ctx.expect_sites(f"2.{tr.rsplit('::', 1)[-1]}-impl", [i["self"] for i in impls], exactly=1, what=f"impl {tr.rsplit('::', 1)[-1]} for InMemoryTransaction")
            if not impls:
                continue
            preds = " ".join(impls[0]["preds"])
            ctx.add(f"2.{tr.rsplit('::', 1)[-1]}-parent-only-inspectable", "BOUND", "KeyValueMutate" not in preds and "Modifiable" not in preds and "KeyValueInspect" in preds,
                    f"where-clause of the impl: {impls[0]['preds']}", sites=impls[0]["preds"], site_key=tr)
            for m in impls[0]["methods"]:
                u = F.unit(f"<{IMT} as {tr}>::{m}")
                touched_changes = False
                storage_calls = []
                for b in u.bodies:
                    ops = ctx.field_ops(b, b.live, IMT)
                    touched_changes |= any(f == "changes" for f, _ in ops)
                    storage_calls += [(f, mm) for f, mm in ops if f == "storage"]
                ctx.add(f"2.{m}-records-in-changes", "SIBLING", touched_changes, f"{m} records its effect in self.changes", sites=[u.q], site_key=m)
                ctx.add(f"2.{m}-parent-read-only", "SIBLING", all(mm == "get" for _, mm in storage_calls) and (not storage_calls or m in ("replace", "take")),
                        f"{m} touches the parent storage only by {sorted(set(mm for _, mm in storage_calls))}", sites=[str(x) for x in storage_calls], site_key=m + ":parent")
        # every mutation leaves a pending operation of the right kind for its key on every successful path, and never
        # un-records one: a pending entry is what shadows the parent for the reads of clause 1 and what commit applies
        WOP = "fuel_core_storage::kv_store::WriteOperation"
        want = {"put": "Insert", "replace": "Insert", "write": "Insert", "take": "Remove", "delete": "Remove"}
        REC = ("alloc::collections::btree::map::BTreeMap::insert", "alloc::collections::btree::map::entry::VacantEntry::insert",
               "alloc::collections::btree::map::entry::OccupiedEntry::insert")
        for m, var in want.items():
            b = F.unit(f"<{IMT} as {KVM}>::{m}").root
            o = Origins(b, 0)
            rec = [c for c in b.calls_to(*REC) if c.bb in b.live]
            good = [c for c in rec if atom_match(o.atoms(c.args[-1]), f"agg:{WOP}::{var}")]
            wrong = [c for c in rec if c not in good]
            ctx.expect_sites(f"2.{m}-records-only-{var}", wrong, exactly=0, what=f"pending operation of another kind than {var} recorded by {m}")
            ctx.must_pass(f"2.{m}-records-on-every-path", b, good, detail=f"every successful return of {m} has recorded WriteOperation::{var} for the key")
            unrec = [c for c in b.calls if c.bb in b.live and c.path.startswith("alloc::collections::btree::map::") and
                     c.name in ("remove", "remove_entry", "pop_first", "pop_last", "clear", "retain", "take")]
            unrec += [c for c in b.calls if c.bb in b.live and c.path.startswith("std::collections::hash::map::") and c.name in ("remove", "remove_entry", "clear", "retain")]
            ctx.expect_sites(f"2.{m}-never-unrecords", unrec, exactly=0, what=f"removal of a pending entry from the change set in {m} (the parent value would become visible again)")

    with ctx.clause("3.commit"):
        MOD = f"{T}::Modifiable::commit_changes"
        sites = [c for c in ctx.call_sites(MOD, CR) if hasattr(c, "args")]
        in_commit = [c for c in sites if c.body.unit == "fuel_core_storage::structured_storage::StructuredStorage::commit" or c.body.unit.endswith("StorageTransaction::commit")]
        # forwarding impls (StructuredStorage, &mut T, Box<T>) delegate to the same-named method
        fwd = [c for c in sites if c.body.unit.endswith(" as fuel_core_storage::transactional::Modifiable>::commit_changes")]
        ctx.expect_sites("3.forwarding-impls", fwd, at_least=3, what="Modifiable forwarding impls")
        others = [c for c in sites if c not in in_commit and c not in fwd]
        ctx.expect_sites("3.commit-site", in_commit, exactly=1, what="parent commit_changes in StorageTransaction::commit")
        ctx.expect_sites("3.no-other-parent-commit", [c.where() for c in others], exactly=0, what="other Modifiable::commit_changes calls inside fuel_core_storage")
        for c in in_commit:
            ctx.arg_origin("3.commit-takes-own-changes", c, 1, "call:core::mem::take", depth=0)
            ctx.arg_origin("3.commit-into-parent", c, 0, f"field:{IMT}.storage", depth=0)
            fn = [f for f in F.fn_item(c.body.unit, crate="fuel_core_storage")]
            ok = any("Modifiable" in " ".join(f["preds"]) for f in fn)
            ctx.add("3.commit-requires-modifiable-parent", "BOUND", ok, "StorageTransaction::commit is only available when the parent is Modifiable", sites=[p for f in fn for p in f["preds"]][:4], site_key="bound")

    with ctx.clause("4.merge-policy"):
        b = F.unit(f"<{IMT} as {T}::Modifiable>::commit_changes").root
        CP = f"{T}::ConflictPolicy"
        ctx.dispatch_total("4.policy-dispatch", b, CP)
        arms = ctx.match_arms(b, CP)
        ENTRY = "alloc::collections::btree::map::entry::Entry"
        esw = [(bb, sw) for (bb, sw, _) in ctx.enum_switches(b, ENTRY) if bb in arms.get("Fail", set())]
        ctx.expect_sites("4.fail-arm-entry-match", [f"bb{bb}" for bb, _ in esw], exactly=1, what="match on the btree entry under ConflictPolicy::Fail")
        errs = b.error_blocks()
        names = ctx.variants(ENTRY)
        for bb, sw in esw:
            occ = [ctx._edge_target(b, (bb, lab)) for lab in sw.edge_for_value(names.index("Occupied"))]
            vac = [ctx._edge_target(b, (bb, lab)) for lab in sw.edge_for_value(names.index("Vacant"))]
            ctx.add("4.fail-occupied-rejects", "REJECT", b.path(occ, b.return_blocks() + [bb], cut_blocks=errs) is None, "under Fail a key written by both sides is a conflict error",
                    sites=[f"bb{bb}"], site_key="occ")
            ins = [c for c in b.calls if c.bb in b.live and c.path.endswith("VacantEntry::insert")]
            ctx.add("4.fail-vacant-inserts", "PAIR", bool(ins) and any(b.path(vac, [c.bb]) is not None for c in ins), "under Fail a fresh key is inserted", sites=[c.where() for c in ins], site_key="vac")
        ow = [c for c in b.calls_to("alloc::collections::btree::map::BTreeMap::insert") if c.bb in arms.get("Overwrite", set())]
        ctx.expect_sites("4.overwrite-inserts", ow, exactly=1, what="btree.insert under ConflictPolicy::Overwrite")

    # -- 5. direction of the merge: the incoming (child) operations are written over the pending (parent) ones --
    with ctx.clause("5.merge-direction"):
        b5 = F.unit(f"<{IMT} as {T}::Modifiable>::commit_changes").root
        sw5 = [c for c in b5.calls if c.bb in b5.live and c.path.startswith("core::mem::") and c.name in ("swap", "replace", "take")]
        ctx.expect_sites("5.no-swap-of-the-two-sides", sw5, exactly=0,
                         what="mem::swap / replace / take inside commit_changes (exchanging the pending map with the incoming one makes the parent's older operations win over the child's newer ones)")
        o5 = Origins(b5, 2)
        ow5 = [c for c in b5.calls_to("alloc::collections::btree::map::BTreeMap::insert") if c.bb in b5.live]
        for i, c in enumerate(ow5):
            recv = o5.atoms(c.args[0])
            val = o5.atoms(c.args[2]) | o5.atoms(c.args[1])
            ctx.add(f"5.insert-{i}-target-is-pending-map", "PROV", atom_match(recv, f"field:{IMT}.changes") and not atom_match(recv, "param:2"),
                    "the map written to is this transaction's pending change set", sites=[c.where()], site_key=f"t{i}", witness={"atoms": sorted(map(str, recv))[:10]})
            ctx.add(f"5.insert-{i}-source-is-incoming-changes", "PROV", atom_match(val, "param:2") and not atom_match(val, f"field:{IMT}.changes"),
                    "the operation written is one of the incoming changes", sites=[c.where()], site_key=f"s{i}", witness={"atoms": sorted(map(str, val))[:10]})
        loops5 = [c for c in b5.calls_to("core::iter::traits::iterator::Iterator::next") if c.bb in b5.live]
        ctx.add("5.iterates-incoming-changes", "PROV", bool(loops5) and all(atom_match(Origins(b5, 3).atoms(c.args[0]), "param:2") for c in loops5),
                "both loops (columns, keys) iterate the incoming change set", sites=[c.where() for c in loops5], site_key="loops")
