"""C35 — worst-case gas price estimates are total (totality clause; DESIGN §7 C35)."""
from core import AnchorMissing, Origins, atom_match

LEVEL = "proof"
TECHNIQUE = "static analysis: panic-edge enumeration on MIR with interval discharge of constant-length bounds checks"
EXPLANATION = """
Totality clause of C35 at proof level: every panic edge (MIR Assert terminators: bounds, overflow,
division; calls to unwrap/expect/index/panic) of utils::cumulative_percentage_change,
AlgorithmV1::worst_case, UniversalGasPriceProvider::worst_case_gas_price and the GraphQL path
(Context::estimate_gas_price) is an obligation; index-bounds asserts against the constant table
dimensions (25 x 25, taken from the array type) are discharged by interval reasoning over the
dominating comparisons of the index variable against constants (defect D4: `> 25` instead of `>= 25`,
fixed); float casts (`as u64`, saturating) and saturating_* calls carry no panic edge; anything else
must be a listed exception. obligations == discharged is required. In addition (structural, not at proof
level): clause 3 checks the operand pairing of the estimators — each price component (exec, da) is compounded
with its own maximum change rate between for_height and the requested height and the estimate is the
saturating sum of the components — a necessary condition of the lower-bound clause. Clause 4 (structural): AlgorithmUpdaterV1::algorithm fills each AlgorithmV1 field from its own source (exec price/rate, DA price/max DA rate, block height) and from no other.
"""
NOT_DECIDED = """Monotonicity in the horizon and the lower bound against compounded integer rounding —
floating-point value properties, not decidable structurally."""

CR = ["fuel_gas_price_algorithm", "fuel_core"]


def check(ctx):
    F = ctx.F
    with ctx.clause("1.table-lookup"):
        b = F.unit("fuel_gas_price_algorithm::utils::cumulative_percentage_change").root
        bounds = [e for e in ctx.panic_edges(b) if e[0] == "assert" and e[2]["msg"].get("k") == "bounds"]
        ctx.expect_sites("1.table-index-checks", [f"line {t.get('line')}" for _, _, t in bounds], exactly=2, what="bounds checks of PRECOMPUTED_EXP[blocks][percentage]")
        ctx.no_panic("1.cumulative_percentage_change", b)
    with ctx.clause("2.callers-total"):
        wb = F.unit("fuel_gas_price_algorithm::v1::AlgorithmV1::worst_case").root
        ctx.no_panic("2.AlgorithmV1-worst_case", wb)
        calls = wb.calls_to("fuel_gas_price_algorithm::utils::cumulative_percentage_change")
        ctx.expect_sites("2.worst_case-uses-table", calls, exactly=2, what="cumulative_percentage_change calls (exec + da)")
        us = F.find_units("<fuel_core::service::adapters::UniversalGasPriceProvider* as *>::worst_case_gas_price", "fuel_core") or \
            F.find_units("*UniversalGasPriceProvider*::worst_case_gas_price", "fuel_core")
        if not us:
            raise AnchorMissing("UniversalGasPriceProvider::worst_case_gas_price")
        for u in us:
            ctx.no_panic("2.provider-worst_case_gas_price", u.root)
        gus = F.find_units("<async_graphql::context::ContextBase* as fuel_core::schema::gas_price::EstimateGasPriceExt>::estimate_gas_price", "fuel_core") or \
            F.find_units("*EstimateGasPriceExt>::estimate_gas_price", "fuel_core")
        if not gus:
            raise AnchorMissing("EstimateGasPriceExt::estimate_gas_price impl")
        for u in gus:
            for b in u.bodies:
                ctx.no_panic(f"2.graphql-estimate-{b.defq.rsplit('::', 1)[-1]}", b, allowed=("data_unchecked",))
            rb = u.root
            add = rb.calls_to("u32::checked_add") + [c for bd in u.bodies for c in bd.calls_to("u32::checked_add")]
            ctx.expect_sites("2.horizon-checked-add", add, at_least=1, what="checked_add(horizon, latest height)")
    # -- 3. lower bound, structural part: each price component is compounded with its own rate over the same horizon --
    with ctx.clause("3.component-pairing"):
        V1 = "fuel_gas_price_algorithm::v1::AlgorithmV1"
        wb = F.unit(f"{V1}::worst_case").root
        calls = [c for c in wb.calls_to("fuel_gas_price_algorithm::utils::cumulative_percentage_change") if c.bb in wb.live]
        o = Origins(wb, 0)
        pairs = {"new_exec_price": "exec_price_percentage", "new_da_gas_price": "da_gas_price_percentage"}
        seen = set()
        for i, c in enumerate(sorted(calls, key=lambda c: c.bb)):
            price = {str(v).split(".")[-1] for k, v in o.atoms(c.args[0]) if k == "field"} & set(pairs)
            rate = {str(v).split(".")[-1] for k, v in o.atoms(c.args[2]) if k == "field"}
            okp = len(price) == 1 and rate == {pairs[next(iter(price))]}
            seen |= price
            ctx.add(f"3.component-{i}-compounded-with-own-rate", "PROV", okp, f"cumulative_percentage_change({sorted(price)}, .., {sorted(rate)}, ..): a price component must grow with its own maximum change rate "
                    "(the estimate is a lower bound only if neither component is compounded with the other's smaller rate)", sites=[c.where()], site_key=f"pair{i}")
            ctx.arg_origin(f"3.component-{i}-from-block-height", c, 1, f"field:{V1}.for_height", depth=0)
            ctx.arg_origin(f"3.component-{i}-to-target-height", c, 3, "param:2", depth=0)
        ctx.add("3.both-components-estimated", "PROV", seen == set(pairs), f"components estimated: {sorted(seen)}", sites=[c.where() for c in calls], site_key="both")
        sa = ctx.one_call(wb, "u64::saturating_add", "core::num::<impl u64>::saturating_add")
        at = o.atoms(sa.args[0]) | o.atoms(sa.args[1])
        ctx.add("3.estimate-is-sum-of-components", "PROV", sum(1 for k, v in at if k == "call" and str(v).endswith("cumulative_percentage_change")) >= 1 and
                all(atom_match(o.atoms(a), "call:fuel_gas_price_algorithm::utils::cumulative_percentage_change") for a in sa.args[:2]),
                "worst case = exec estimate + da estimate (saturating)", sites=[sa.where()], site_key="sum")
        ctx.flows("3.sum-returned", sa, to_return=True)
        V0 = "fuel_gas_price_algorithm::v0::AlgorithmV0"
        w0 = F.unit(f"{V0}::worst_case").root
        c0 = ctx.one_call(w0, "fuel_gas_price_algorithm::utils::cumulative_percentage_change")
        ctx.arg_origin("3.v0-price", c0, 0, f"field:{V0}.new_exec_price", depth=0)
        ctx.arg_origin("3.v0-rate", c0, 2, f"field:{V0}.percentage", depth=0)
        ctx.arg_origin("3.v0-from", c0, 1, f"field:{V0}.for_height", depth=0)

    # -- 4. the estimator handed out by the updater carries each component's own price and rate --
    with ctx.clause("4.updater-algorithm-fields"):
        UP = "fuel_gas_price_algorithm::v1::AlgorithmUpdaterV1"
        A1 = "fuel_gas_price_algorithm::v1::AlgorithmV1"
        ab = F.unit(f"{UP}::algorithm").root
        ag = [s for bb, j, s in ab.stmts() if bb in ab.live and s["k"] == "assign" and s["rv"]["k"] == "agg" and s["rv"].get("adt") == A1]
        ctx.expect_sites("4.algorithm-built", [str(s.get("line")) for s in ag], exactly=1, what="AlgorithmV1 { .. } in AlgorithmUpdaterV1::algorithm")
        want = {"new_exec_price": f"call:{UP}::descaled_exec_price", "exec_price_percentage": f"field:{UP}.exec_gas_price_change_percent",
                "new_da_gas_price": f"call:{UP}::descaled_da_price", "da_gas_price_percentage": f"field:{UP}.max_da_gas_price_change_percent",
                "for_height": f"field:{UP}.l2_block_height"}
        if ag:
            o4 = Origins(ab, 1)
            fl = ag[0]["rv"]["fields"]
            for f, spec in want.items():
                at = o4.atoms(ag[0]["rv"]["ops"][fl.index(f)]) if f in fl else set()
                others = [w for g, w in want.items() if g != f]
                ctx.add(f"4.{f}", "PROV", atom_match(at, spec) and not any(atom_match(at, w) for w in others),
                        f"AlgorithmV1.{f} is taken from {spec.split('::')[-1].split('.')[-1]} (the DA component must be estimated with the DA rate, the exec component with the exec rate)",
                        sites=[str(ag[0].get("line"))], site_key=f, witness={"atoms": sorted(map(str, at))[:8]})
        for fn, fld in (("descaled_exec_price", "new_scaled_exec_price"), ("descaled_da_price", "new_scaled_da_gas_price")):
            db_ = F.unit(f"{UP}::{fn}").root
            at = Origins(db_, 2).atoms({"k": "copy", "l": 0})
            ctx.add(f"4.{fn}-reads-own-price", "PROV", atom_match(at, f"field:{UP}.{fld}") and not atom_match(at, f"field:{UP}." + ("new_scaled_da_gas_price" if "exec" in fn else "new_scaled_exec_price")),
                    f"{fn} descales {fld}", sites=[f"{db_.file}:{db_.line}"], site_key=fn)
