"""C35 — worst-case gas price estimates are total (totality clause; DESIGN §7 C35)."""
from core import AnchorMissing, Origins, atom_match

LEVEL = "proof"
TECHNIQUE = "static analysis: panic-edge enumeration on MIR with interval discharge of constant-length bounds checks"
EXPLANATION = """
Totality clause of C35 at proof level: every panic edge (MIR Assert terminators: bounds, overflow,
division; calls to unwrap/expect/index/panic) of utils::cumulative_percentage_change,
AlgorithmV1::worst_case, UniversalGasPriceProvider::worst_case_gas_price and the GraphQL path
(Context::estimate_gas_price) is an obligation; index-bounds asserts against the constant table
dimensions (25 x 25, taken from the array type) are discharged by interval reasoning over the
dominating comparisons of the index variable against constants (defect D4: `> 25` instead of `>= 25`,
fixed); float casts (`as u64`, saturating) and saturating_* calls carry no panic edge; anything else
must be a listed exception. obligations == discharged is required.
"""
NOT_DECIDED = """Monotonicity in the horizon and the lower bound against compounded integer rounding —
floating-point value properties, not decidable structurally."""

CR = ["fuel_gas_price_algorithm", "fuel_core"]


def check(ctx):
    F = ctx.F
    with ctx.clause("1.table-lookup"):
        b = F.unit("fuel_gas_price_algorithm::utils::cumulative_percentage_change").root
        bounds = [e for e in ctx.panic_edges(b) if e[0] == "assert" and e[2]["msg"].get("k") == "bounds"]
        ctx.expect_sites("1.table-index-checks", [f"line {t.get('line')}" for _, _, t in bounds], exactly=2, what="bounds checks of PRECOMPUTED_EXP[blocks][percentage]")
        ctx.no_panic("1.cumulative_percentage_change", b)
    with ctx.clause("2.callers-total"):
        wb = F.unit("fuel_gas_price_algorithm::v1::AlgorithmV1::worst_case").root
        ctx.no_panic("2.AlgorithmV1-worst_case", wb)
        calls = wb.calls_to("fuel_gas_price_algorithm::utils::cumulative_percentage_change")
        ctx.expect_sites("2.worst_case-uses-table", calls, exactly=2, what="cumulative_percentage_change calls (exec + da)")
        us = F.find_units("<fuel_core::service::adapters::UniversalGasPriceProvider* as *>::worst_case_gas_price", "fuel_core") or \
            F.find_units("*UniversalGasPriceProvider*::worst_case_gas_price", "fuel_core")
        if not us:
            raise AnchorMissing("UniversalGasPriceProvider::worst_case_gas_price")
        for u in us:
            ctx.no_panic("2.provider-worst_case_gas_price", u.root)
        gus = F.find_units("<async_graphql::context::ContextBase* as fuel_core::schema::gas_price::EstimateGasPriceExt>::estimate_gas_price", "fuel_core") or \
            F.find_units("*EstimateGasPriceExt>::estimate_gas_price", "fuel_core")
        if not gus:
            raise AnchorMissing("EstimateGasPriceExt::estimate_gas_price impl")
        for u in gus:
            for b in u.bodies:
                ctx.no_panic(f"2.graphql-estimate-{b.defq.rsplit('::', 1)[-1]}", b, allowed=("data_unchecked",))
            rb = u.root
            add = rb.calls_to("u32::checked_add") + [c for bd in u.bodies for c in bd.calls_to("u32::checked_add")]
            ctx.expect_sites("2.horizon-checked-add", add, at_least=1, what="checked_add(horizon, latest height)")
