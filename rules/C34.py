"""C34 — gas prices stay within bounds and change at most the configured rate (DESIGN §7 C34)."""
from core import AnchorMissing, Origins, atom_match, place_fields

LEVEL = "other"
EXPLANATION = """
Structural clauses of C34 in fuel_gas_price_algorithm::v1::AlgorithmUpdaterV1, for all paths:
(1) CLAMP: new_scaled_exec_price is written only in update_exec_gas_price (and constructors), as
max(min_scaled_exec_gas_price(), x); new_scaled_da_gas_price only in update_da_gas_price, as
min(max(min_scaled_da_gas_price(), x), max_scaled_da_gas_price()); (2) rate: the exec candidate x is
the current price saturating_add / saturating_sub exec_change(price) where exec_change =
price * exec_gas_price_change_percent / 100, and exactly one of the two is applied per update; the DA
change is signum * min(|p+d|*factor, max_change()) with max_change from
max_da_gas_price_change_percent, and the activity adjustment yields the change itself, 0 or
-max_change; (3) rejection without state change: in update_l2_block_data every write to a field of
self and every call taking &mut self is dominated by the false edge of `height != l2_block_height + 1`,
whose true edge is an error exit; (4) the update methods contain no panic edge (saturating / checked
arithmetic only) apart from listed exceptions. (6) every return of update_da_gas_price / update_exec_gas_price has written the clamped price (no early exit around the clamp).
"""
NOT_DECIDED = """Numeric bounds after accumulation (values); the DA-record path's range checks beyond shape."""

CR = ["fuel_gas_price_algorithm"]
U = "fuel_gas_price_algorithm::v1::AlgorithmUpdaterV1"


def writes_of(ctx, field):
    return [(bd, bb, s) for (k, bd, bb, s) in ctx.field_touches(U, field, CR, kinds=("write",))]


def check(ctx):
    F = ctx.F
    with ctx.clause("1.clamps"):
        for field, fn, shape in (("new_scaled_exec_price", "update_exec_gas_price", "exec"), ("new_scaled_da_gas_price", "update_da_gas_price", "da")):
            units = {bd.unit for (k, bd, bb, s) in ctx.field_touches(U, field, CR, kinds=("write", "refmut"))}
            ctx.add(f"1.{field}-writers", "WMW", units <= {f"{U}::{fn}", f"{U}::new"} and f"{U}::{fn}" in units, f"{field} written in {sorted(x.split('::')[-1] for x in units)}",
                    sites=sorted(units), site_key=field)
            b = F.unit(f"{U}::{fn}").root
            ws = [(bb, s) for bd, bb, s in writes_of(ctx, field) if bd is b]
            calls_w = [c for c in b.calls if c.bb in b.live and c.dest is not None and place_fields(c.dest) and place_fields(c.dest)[-1] == (U, field)]
            ctx.add(f"1.{field}-single-write", "COUNT", len(ws) + len(calls_w) == 1, f"{len(ws) + len(calls_w)} writes of {field} in {fn}", sites=[str(s.get('line')) for _, s in ws] + [c.where() for c in calls_w],
                    site_key=field + ":n")
            # the written value is the result of the outermost clamp call
            outer = calls_w[0] if calls_w else None
            if outer is None and ws:
                ds = Origins(b, 0).direct_def(ws[0][1]["rv"]["op"], through_transparent=False) if ws[0][1]["rv"]["k"] == "use" else []
                outer = ds[0][1] if ds and ds[0][0] == "call" else None
            if shape == "exec":
                ok = outer is not None and outer.path == "core::cmp::max"
                if ok:
                    a = Origins(b, 0).atoms(outer.args[0]) | Origins(b, 0).atoms(outer.args[1])
                    ok = atom_match(a, f"call:{U}::min_scaled_exec_gas_price")
                ctx.add("1.exec-price-clamped-from-below", "CLAMP", ok, "new_scaled_exec_price = max(min_scaled_exec_gas_price(), x)", sites=[outer.where()] if outer else [], site_key="exec")
            else:
                ok = outer is not None and outer.path == "core::cmp::min"
                inner_ok = False
                if ok:
                    o = Origins(b, 0)
                    a0, a1 = o.atoms(outer.args[0]), o.atoms(outer.args[1])
                    ok = atom_match(a0 | a1, f"call:{U}::max_scaled_da_gas_price")
                    for arg in outer.args:
                        ds = o.direct_def(arg, through_transparent=False)
                        for d in ds:
                            if d[0] == "call" and d[1].path == "core::cmp::max":
                                ia = o.atoms(d[1].args[0]) | o.atoms(d[1].args[1])
                                inner_ok = atom_match(ia, f"call:{U}::min_scaled_da_gas_price")
                ctx.add("1.da-price-clamped-from-above", "CLAMP", ok, "new_scaled_da_gas_price = min(.., max_scaled_da_gas_price())", sites=[outer.where()] if outer else [], site_key="da-max")
                ctx.add("1.da-price-clamped-from-below", "CLAMP", inner_ok, ".. = min(max(min_scaled_da_gas_price(), x), ..)", sites=[outer.where()] if outer else [], site_key="da-min")
        for fn, fld in (("min_scaled_exec_gas_price", "min_exec_gas_price"), ("min_scaled_da_gas_price", "min_da_gas_price")):
            mb = F.unit(f"{U}::{fn}").root
            mul = ctx.one_call(mb, "u64::saturating_mul")
            ctx.arg_origin(f"1.{fn}-from-config", mul, 0, f"field:{U}.{fld}", depth=0)
        xb = F.unit(f"{U}::max_scaled_da_gas_price").root
        mx = ctx.one_call(xb, "core::cmp::max")
        a = Origins(xb, 0).atoms(mx.args[0]) | Origins(xb, 0).atoms(mx.args[1])
        ctx.add("1.max-da-bound-at-least-min", "CLAMP", atom_match(a, f"field:{U}.max_da_gas_price") and atom_match(a, f"field:{U}.min_da_gas_price"),
                "the upper DA bound is max(max_da_gas_price, min_da_gas_price) * factor", sites=[mx.where()], site_key="maxb")

    with ctx.clause("2.rate"):
        b = F.unit(f"{U}::update_exec_gas_price").root
        ec = b.calls_to(f"{U}::exec_change")
        add = b.calls_to("u64::saturating_add")
        sub = b.calls_to("u64::saturating_sub")
        ctx.expect_sites("2.exec-up", add, exactly=1, what="price.saturating_add(change)")
        ctx.expect_sites("2.exec-down", sub, exactly=1, what="price.saturating_sub(change)")
        for c in add + sub:
            ctx.arg_origin(f"2.exec-{c.name}-by-exec_change", c, 1, f"call:{U}::exec_change", depth=0)
            ctx.arg_origin(f"2.exec-{c.name}-of-current-price", c, 0, f"field:{U}.new_scaled_exec_price", depth=0)
        ctx.add("2.exec-one-step-per-update", "GUARD", bool(add) and bool(sub) and b.path([add[0].target], [sub[0].bb]) is None and b.path([sub[0].target], [add[0].bb]) is None,
                "an update moves the exec price up or down by one step, never both", sites=[c.where() for c in add + sub], site_key="one")
        eb = F.unit(f"{U}::exec_change").root
        mul = ctx.one_call(eb, "u64::saturating_mul")
        div = ctx.one_call(eb, "u64::saturating_div")
        ctx.arg_origin("2.exec-change-percent", mul, 1, f"field:{U}.exec_gas_price_change_percent", depth=0)
        ctx.const_arg("2.exec-change-per-hundred", div, 1, 100)
        ctx.flows("2.exec-change-is-product-over-100", mul, to_call="u64::saturating_div", to_arg=0)
        db = F.unit(f"{U}::da_change").root
        mn = [c for c in db.calls if c.bb in db.live and c.name == "min"]
        ctx.expect_sites("2.da-change-clamped", mn, exactly=1, what="|p+d| .min(max_change)")
        for c in mn:
            a = Origins(db, 0).atoms(c.args[0]) | Origins(db, 0).atoms(c.args[1])
            ctx.add("2.da-clamp-bound-is-max_change", "CLAMP", atom_match(a, f"call:{U}::max_change"), "the DA step is bounded by max_change()", sites=[c.where()], site_key="mc")
            ctx.flows("2.da-clamped-value-returned", c, to_return=True, through_calls=("i128::saturating_mul",))
        mb = F.unit(f"{U}::max_change").root
        mm = ctx.one_call(mb, "u64::saturating_mul")
        a = Origins(mb, 1).atoms(mm.args[0]) | Origins(mb, 1).atoms(mm.args[1])
        ctx.add("2.max-change-from-config-percent", "PROV", atom_match(a, f"field:{U}.max_da_gas_price_change_percent") and atom_match(a, f"field:{U}.new_scaled_da_gas_price"),
                "max_change = price * max_da_gas_price_change_percent / 100", sites=[mm.where()], site_key="pct")
        md = ctx.one_call(mb, "u64::saturating_div")
        ctx.const_arg("2.max-change-per-hundred", md, 1, 100)
        ub = F.unit(f"{U}::update_da_gas_price").root
        dc = ctx.one_call(ub, f"{U}::da_change")
        ac = ctx.one_call(ub, f"{U}::da_change_accounting_for_activity")
        ctx.arg_origin("2.activity-adjusts-clamped-change", ac, 1, f"call:{U}::da_change", depth=0)
        ca = ctx.one_call(ub, "i128::checked_add")
        ctx.arg_origin("2.da-step-is-adjusted-change", ca, 1, f"call:{U}::da_change_accounting_for_activity", depth=0)
        ab = F.unit(f"{U}::da_change_accounting_for_activity").root
        SM = "fuel_gas_price_algorithm::v1::DAGasPriceSafetyMode"
        ctx.dispatch_total("2.safety-mode-dispatch", ab, SM)

    with ctx.clause("3.reject-without-change"):
        b = F.unit(f"{U}::update_l2_block_data").root
        ne = ctx.cmp_tests(b, "Ne", lhs="param:2", rhs="call:u32::saturating_add", depth=1)
        ctx.expect_sites("3.height-test", [f"bb{sw.bb}" for sw, _ in ne], exactly=1, what="`height != l2_block_height + 1` test")
        ctx.test_leads_to_error("3.non-consecutive-height-rejects", b, ne, truth=True)
        muts = [bb for bb, j, s in b.stmts() if bb in b.live and s["k"] == "assign" and any(a == U for a, f in place_fields(s["pl"]))]
        calls = [c for c in b.calls if c.bb in b.live and c.path.startswith(U + "::") and c.args and "&mut" in b.local_ty(c.args[0]["l"]) if c.args[0].get("k") in ("copy", "move")]
        ctx.expect_sites("3.state-mutations", muts + [c.bb for c in calls], at_least=6, what="state mutations in update_l2_block_data")
        ctx.guarded("3.no-state-change-before-height-check", b, muts + calls, ne, truth=False, detail="a rejected update leaves the updater unchanged")
        sa = [c for c in b.calls_to("u32::saturating_add") if atom_match(Origins(b, 0).atoms(c.args[0]), f"field:{U}.l2_block_height")]
        ctx.expect_sites("3.expected-height", sa, exactly=1, what="l2_block_height.saturating_add(1)")
        for c in sa:
            ctx.const_arg("3.expected-is-plus-one", c, 1, 1)
        rb = F.unit(f"{U}::update_da_record_data").root
        dbu = ctx.one_call(rb, f"{U}::da_block_update")
        ctx.after_ok("3.da-price-updated-only-after-valid-record", dbu, rb.calls_to(f"{U}::update_da_gas_price", f"{U}::recalculate_projected_cost"))

    with ctx.clause("4.total"):
        for fn in ("update_l2_block_data", "update_exec_gas_price", "update_da_gas_price", "da_change", "max_change", "exec_change", "p", "d",
                   "da_change_accounting_for_activity", "min_scaled_exec_gas_price", "min_scaled_da_gas_price", "max_scaled_da_gas_price"):
            for u in F.units(f"{U}::{fn}", crate="fuel_gas_price_algorithm"):
                for b in u.bodies:
                    ctx.no_panic(f"4.{fn}", b)

    # -- 6. the bound is applied on every path of the price updates (no early exit around the clamp) --
    with ctx.clause("6.clamp-on-every-path"):
        UPQ = "fuel_gas_price_algorithm::v1::AlgorithmUpdaterV1"
        for fn, fld in (("update_da_gas_price", "new_scaled_da_gas_price"), ("update_exec_gas_price", "new_scaled_exec_price")):
            b6 = F.unit(f"{UPQ}::{fn}").root
            ws = [(bb, s) for bb, j, s in b6.stmts() if bb in b6.live and s["k"] == "assign" and place_fields(s["pl"]) and place_fields(s["pl"])[-1] == (UPQ, fld)]
            cw = [c for c in b6.calls if c.bb in b6.live and c.dest is not None and place_fields(c.dest) and place_fields(c.dest)[-1] == (UPQ, fld)]
            blocks = [bb for bb, _ in ws] + [c.bb for c in cw]
            ctx.expect_sites(f"6.{fn}-price-write", [str(x) for x in blocks], at_least=1, what=f"write of {fld}")
            p6 = b6.path([0], b6.return_blocks(), cut_blocks=blocks) if blocks else [0]
            ctx.add(f"6.{fn}-always-writes-the-clamped-price", "MPT", p6 is None,
                    f"every return of {fn} has written the (clamped) price: there is no early exit that leaves a price outside its bounds untouched", sites=[f"bb{x}" for x in blocks], site_key=fn,
                    witness=None if p6 is None else {"path": b6.describe_path(p6)})
