"""C04 — reverted and skipped transactions have only their allowed effects (DESIGN §7 C04)."""
import os, sys
sys.path.insert(0, os.path.dirname(os.path.abspath(__file__)))
from core import AnchorMissing, Origins, atom_match, place_fields
from exec_common import *

LEVEL = "other"
EXPLANATION = """
Structural necessary conditions of C04 in fuel_core_executor, for all paths: (1) in
attempt_tx_execution_with_vm the VM's storage changes are committed to the transaction storage
only on the `reverted == false` edge, on the other edge the recorded post-state is reset before
the outputs are recomputed, and the VM runs on a separate sub-transaction (its changes are taken
out by into_inner and flow nowhere else); (2) outbox message ids are collected only when not
reverted; (3) in spend_input_utxos the retryable message-data inputs of a reverted transaction
reach the loop continuation without any table write, all other inputs are consumed regardless of
`reverted`; the fee/gas accounting (update_execution_data) and coin spending are not guarded by
`reverted`; (4) a skipped transaction changes nothing: execute_transaction works on a
transaction-level storage transaction whose commit is dominated by execute_transaction's ok-edge
and which is the only escape of its writes; the block's transaction list and tx_count are
updated only after that commit succeeded; in process_l2_txs the error arm and the gas-overflow
arm only record the skip. (6) no transaction-level rejection after the first event of the transaction was recorded: after spend_input_utxos only the `?` of persist_output_utxos / ProcessedTransactions.insert / update_execution_data may fail.
"""
NOT_DECIDED = """What the VM itself writes before reverting (inside the sub-transaction that is dropped)."""


def check(ctx):
    F = ctx.F
    with ctx.clause("1.revert-discards-vm-changes"):
        b = F.unit(f"{EX}::attempt_tx_execution_with_vm").root
        commit = ctx.one_call(b, "fuel_core_storage::transactional::Modifiable::commit_changes")
        rev = ctx.value_tests(b, ["local:reverted", "call:fuel_vm::state::StateTransition::should_revert"])
        rev = [t for t in rev if b.path([t[0].bb], [commit.bb]) is not None]
        ctx.expect_sites("1.reverted-test", [f"bb{sw.bb}" for sw, _ in rev], at_least=1, what="test of `reverted` before the commit")
        ctx.guarded("1.commit-only-if-not-reverted", b, [commit], rev, truth=False, detail="VM state changes are committed only for successful scripts")
        inner = ctx.one_call(b, "fuel_core_storage::structured_storage::StructuredStorage::into_inner")
        ctx.arg_origin("1.commit-the-vm-changes", commit, 1, "call:fuel_core_storage::structured_storage::StructuredStorage::into_inner")
        ctx.arg_origin("1.commit-into-tx-storage", commit, 0, "param:6")
        upd = ctx.one_call(b, f"{EX}::update_tx_outputs")
        # on the reverted edge state_after is reset before update_tx_outputs
        resets = []
        for bb, j, s in b.stmts():
            if bb in b.live and s["k"] == "assign" and not s["pl"].get("p") and any(ctx.same_local(b, {"k": "copy", "l": s["pl"]["l"]}, a) for a in upd.args):
                resets.append((bb, s))
        edges_true = [(sw.bb, lab) for sw, pol in rev for lab in sw.edges_for_truth(True if pol else False)]
        starts = [ctx._edge_target(b, e) for e in edges_true]
        reset_blocks = [bb for bb, s in resets if s["rv"]["k"] == "use" and
                        atom_match(Origins(b, 0).atoms(s["rv"]["op"]), "call:core::default::Default::default")]
        p = b.path(starts, [upd.bb], cut_blocks=reset_blocks) if starts and reset_blocks else [0]
        ctx.add("1.reverted-state-reset", "MPT", p is None, "on the reverted edge the recorded post-state is reset before outputs are recomputed",
                sites=[f"bb{x}" for x in reset_blocks], site_key=b.defq, witness=None if p is None else {"path": b.describe_path(p)})
        vm = b.calls_to("fuel_core_executor::executor::*VmStorage*::new", "fuel_core_storage::vm_storage::VmStorage::new")
        ctx.expect_sites("1.vm-storage", vm, exactly=1, what="VmStorage::new")
        for c in vm:
            ctx.arg_origin("1.vm-on-sub-transaction", c, 0, "call:fuel_core_storage::structured_storage::StructuredStorage::with_policy", depth=1)
        ctx.only_callers("1.tx-storage-commit-changes", "fuel_core_storage::transactional::Modifiable::commit_changes", [f"{EX}::attempt_tx_execution_with_vm", f"{EX}::execute_mint_with_vm"], CR)

    with ctx.clause("2.no-outbox-on-revert"):
        b = ctx.body_with(f"{EX}::update_execution_data", "core::iter::traits::collect::Extend::extend")
        ext = [c for c in b.calls_to("core::iter::traits::collect::Extend::extend")
               if atom_match(Origins(b, 1).atoms(c.args[0]), "field:fuel_core_executor::executor::ExecutionData.message_ids")]
        ctx.expect_sites("2.message-ids-extend", ext, exactly=1, what="message_ids.extend")
        rev = ctx.value_tests(b, "param:6")
        ctx.guarded("2.message-ids-only-if-not-reverted", b, ext, rev, truth=False, detail="a reverted script produces no outbox messages")
        ws = [s for (k, bd, bb, s) in ctx.field_touches("fuel_core_executor::executor::ExecutionData", "message_ids", CR, kinds=("write", "refmut")) ]
        units = {bd.unit for (k, bd, bb, s) in ctx.field_touches("fuel_core_executor::executor::ExecutionData", "message_ids", CR, kinds=("write", "refmut"))}
        ctx.add("2.message-ids-writers", "WMW", units <= {f"{EX}::update_execution_data", "fuel_core_executor::executor::ExecutionData::new"} and bool(units),
                f"message_ids is written in {sorted(units)}", sites=sorted(units), site_key="writers")
        # fee / gas accounting is unconditional
        for fn in ("u64::checked_add", "u32::checked_add"):
            for c in b.calls_to(fn):
                p = b.path([0], [c.bb], cut_edges={(sw.bb, lab) for sw, pol in rev for lab in sw.edges_for_truth(True)}) and \
                    b.path([0], [c.bb], cut_edges={(sw.bb, lab) for sw, pol in rev for lab in sw.edges_for_truth(False)})
                ctx.add(f"2.accounting-regardless-of-revert-bb{c.bb}", "GUARD", p is not None, "fees, gas and size are charged whether or not the script reverted",
                        sites=[c.where()], site_key=f"acc{c.bb}")

    with ctx.clause("3.retryable-messages"):
        b = F.unit(f"{EX}::spend_input_utxos").root
        rev = ctx.value_tests(b, "param:4")
        ctx.expect_sites("3.reverted-guard", [f"bb{sw.bb}" for sw, _ in rev], at_least=1, what="`if reverted` guard in spend_input_utxos")
        nxt = ctx.one_call(b, "core::iter::traits::iterator::Iterator::next")
        writes = [c for c in ctx.table_ops("Messages", CR) + ctx.table_ops("Coins", CR) if c.body is b]
        pushes = b.calls_to("alloc::vec::Vec::push")
        ok = True
        for sw, pol in rev:
            for lab in sw.edges_for_truth(True if pol else False):
                t = ctx._edge_target(b, (sw.bb, lab))
                if b.path([t], [c.bb for c in writes + pushes], cut_blocks=[nxt.bb]) is not None:
                    ok = False
        ctx.add("3.reverted-data-message-untouched", "GUARD", ok and bool(rev), "a reverted transaction's retryable messages are neither removed nor reported",
                sites=[f"bb{sw.bb}" for sw, _ in rev], site_key=b.defq)
        arms = ctx.match_arms(b, INPUT)
        guard_blocks = {sw.bb for sw, _ in rev}
        only = {v for v, bl in arms.items() if guard_blocks & bl}
        ctx.add("3.guard-only-for-data-messages", "DISPATCH", only == {"MessageDataSigned", "MessageDataPredicate"},
                f"the reverted guard applies to {sorted(only)}", sites=sorted(only), site_key="arms")
        # coins and message coins are consumed regardless of `reverted`
        for c in writes:
            tbl = c.targs[-1].rsplit("::", 1)[-1]
            for v in (("CoinSigned", "CoinPredicate") if tbl == "Coins" else ("MessageCoinSigned", "MessageCoinPredicate")):
                idx = ctx.variant_index(INPUT, v)
                sws = ctx.enum_switches(b, INPUT)
                starts = [ctx._edge_target(b, (bb, lab)) for (bb, sw, _) in sws[:1] for lab in sw.edge_for_value(idx)]
                cut = {(sw.bb, lab) for sw, pol in rev for lab in sw.edges_for_truth(False if pol else True)}
                # even when only `reverted == true` edges are allowed the write is reached
                p = b.path(starts, [c.bb], cut_edges=cut, cut_blocks=[nxt.bb])
                ctx.add(f"3.{v}-consumed-even-if-reverted", "GUARD", p is not None, f"Input::{v} is consumed also when the script reverted",
                        sites=[c.where()], site_key=v)

    with ctx.clause("4.skipped-changes-nothing"):
        b = F.unit(f"{EX}::execute_transaction_and_commit").root
        ex = ctx.one_call(b, f"{EX}::execute_transaction")
        commit = ctx.one_call(b, "fuel_core_storage::structured_storage::StructuredStorage::commit")
        ctx.after_ok("4.commit-only-if-executed", ex, [commit], detail="the transaction-level changes are committed only if execution succeeded")
        wt = ctx.one_call(b, "fuel_core_storage::transactional::WriteTransaction::write_transaction")
        ctx.arg_origin("4.execute-on-tx-level-storage", ex, 7, "call:fuel_core_storage::transactional::WriteTransaction::write_transaction", depth=1)
        ctx.arg_origin("4.commit-that-storage", commit, 0, "call:fuel_core_storage::transactional::WriteTransaction::write_transaction", depth=1)
        push = [c for c in b.calls_to("alloc::vec::Vec::push") if atom_match(Origins(b, 1).atoms(c.args[0]), "field:fuel_core_types::blockchain::block::PartialFuelBlock.transactions")]
        ctx.expect_sites("4.block-push", push, exactly=1, what="block.transactions.push")
        ctx.after_ok("4.listed-only-after-commit", commit, push, detail="a transaction is listed in the block only after its changes were committed")
        cnt = [(bb, s) for bb, j, s in b.stmts() if bb in b.live and s["k"] == "assign" and place_fields(s["pl"]) and place_fields(s["pl"])[-1] == ("fuel_core_executor::executor::ExecutionData", "tx_count")]
        ctx.expect_sites("4.count-write", [s.get("line") for _, s in cnt], exactly=1, what="tx_count write")
        ctx.after_ok("4.counted-only-after-commit", commit, [bb for bb, _ in cnt])
        units = {bd.unit for (k, bd, bb, s) in ctx.field_touches("fuel_core_executor::executor::ExecutionData", "tx_count", CR, kinds=("write", "refmut"))}
        ctx.add("4.tx_count-writers", "WMW", units <= {f"{EX}::execute_transaction_and_commit", "fuel_core_executor::executor::ExecutionData::new"} and bool(units),
                f"tx_count is written in {sorted(units)}", sites=sorted(units), site_key="tx_count")
        # the executors write only to the storage parameter they were given (no access to the block-level tx)
        lb = ctx.body_with(f"{EX}::process_l2_txs", f"{EX}::execute_transaction_and_commit")
        etc = ctx.one_call(lb, f"{EX}::execute_transaction_and_commit")
        bad, _ = ctx.ok_edges(etc, polarity="bad")
        starts = [ctx._edge_target(lb, e) for e in bad]
        nxts = [c.bb for c in lb.calls_to("core::iter::traits::iterator::Iterator::next")]
        forbidden = [c.bb for c in lb.calls if c.bb in lb.live and (c.path.startswith("fuel_storage::StorageMut") or c.is_path(f"{EX}::*") )]
        p = lb.path(starts, forbidden, cut_blocks=nxts) if starts else [0]
        ctx.add("4.error-arm-only-records-skip", "GUARD", p is None, "a failed transaction is only recorded as skipped (no storage access, no executor call) before the next one",
                sites=[etc.where()], site_key=lb.defq, witness=None if p is None else {"path": lb.describe_path(p)})
        gas = ctx.cmp_tests(lb, "Gt", lhs="call:fuel_core_types::blockchain::transaction::TransactionExt::max_gas", rhs="field:fuel_core_executor::executor::ExecutionData.used_gas", depth=2)
        ctx.guarded("4.no-execution-beyond-gas-limit", lb, [etc], gas, truth=False, detail="a transaction that does not fit the remaining gas is skipped, not executed")
    from exec_common import no_rejection_after_events
    no_rejection_after_events(ctx, "6")
