"""C03 — block fee, coinbase and resource limits are respected (DESIGN §7 C03)."""
import os, sys
sys.path.insert(0, os.path.dirname(os.path.abspath(__file__)))
from core import AnchorMissing, Origins, atom_match, place_fields
from exec_common import *

LEVEL = "other"
EXPLANATION = """
Structural necessary conditions of C03 in fuel_core_executor, for all paths: (1) produce_block always
ends with produce_mint_tx, outside the production loop; the mint's index is data.tx_count, its gas
price components.gas_price, its amount data.coinbase under `coinbase_recipient != zero` else the
constant 0, and it is executed through execute_transaction_and_commit; (2) validation: execute_mint
passes check_mint_has_expected_index, check_gas_price and (per recipient arm)
verify_mint_for_empty_contract / check_mint_amount, each of which rejects on `!=`;
execute_transaction rejects anything after a mint (check_mint_is_not_found first);
get_coinbase_info_from_mint_tx rejects a block whose last transaction is not a mint; (3) limits in
process_l2_txs: both source requests are truncated with take(remaining_tx_count), a transaction whose
max_gas exceeds the remaining gas is not executed, the remaining budgets are recomputed after every
transaction as limit.saturating_sub(used), and tx_count grows by checked_add(1) with overflow an
error; (4) accounting: coinbase / used_gas / used_size are written only in update_execution_data,
each through checked_add whose overflow is an error, with the fee / gas returned by total_fee_paid,
which are also the values stored in the transaction status. The found_mint check is either in the common prologue of execute_transaction or the first thing each execution arm does (a second mint after the mint is refused).
"""
NOT_DECIDED = """That per-transaction fees are numerically right; size-limit enforcement for sources that
return oversized transactions is a value question beyond clause 3."""

ED = "fuel_core_executor::executor::ExecutionData"


def check(ctx):
    F = ctx.F
    with ctx.clause("1.mint-produced"):
        b = ctx.body_with(f"{EX}::produce_block", f"{EX}::produce_mint_tx")
        pm = ctx.one_call(b, f"{EX}::produce_mint_tx")
        ctx.must_pass("1.block-ends-with-mint", b, [pm], detail="every produced block passes produce_mint_tx")
        l2 = ctx.one_call(b, f"{EX}::process_l2_txs")
        ctx.add("1.mint-after-production-loop", "ORDER", b.path([pm.target], [l2.bb]) is None and b.path([l2.bb], [pm.bb]) is not None,
                "the mint is produced once, after the transaction loop", sites=[pm.where()], site_key="order")
        ic = ctx.one_call(b, "fuel_core_storage::structured_storage::StructuredStorage::into_changes")
        ctx.dominated("1.changes-after-mint", b, [ic], by_blocks=[pm])
        ctx.only_callers("1.produce_mint_tx-callers", f"{EX}::produce_mint_tx", [f"{EX}::produce_block"], CR)
        mb = F.unit(f"{EX}::produce_mint_tx").root
        mint = ctx.one_call(mb, "fuel_tx::transaction::Transaction::mint")
        ctx.arg_origin("1.mint-index-is-tx-count", mint, 0, f"field:{ED}.tx_count", depth=1)
        ctx.arg_origin("1.mint-gas-price", mint, 5, "field:fuel_core_executor::ports::Components.gas_price" if False else "field:gas_price", depth=0)
        o = Origins(mb, 0)
        at = o.atoms(mint.args[3])
        ctx.add("1.mint-amount-coinbase-or-zero", "PROV", atom_match(at, f"field:{ED}.coinbase") and atom_match(at, "const:0"),
                "mint amount is data.coinbase or the constant 0", sites=[mint.where()], site_key="amount", witness={"atoms": sorted(map(str, at))[:20]})
        ne = ctx.cmp_tests(mb, "Ne", lhs="field:coinbase_recipient", rhs="call:fuel_types::array_types::ContractId::zeroed")
        # the coinbase read happens only on the `recipient != zero` edge
        reads = [bb for bb, j, s in mb.stmts() if bb in mb.live and s["k"] == "assign" and s["rv"]["k"] == "use" and s["rv"]["op"].get("k") in ("copy", "move")
                 and (ED, "coinbase") in place_fields(s["rv"]["op"])]
        ctx.expect_sites("1.coinbase-read", reads, exactly=1, what="read of data.coinbase in produce_mint_tx")
        ctx.guarded("1.coinbase-only-with-recipient", mb, reads, ne, truth=True, detail="without a coinbase recipient nothing is minted")
        etc = ctx.one_call(mb, f"{EX}::execute_transaction_and_commit")
        ctx.arg_origin("1.mint-is-executed", etc, 4, "call:fuel_tx::transaction::Transaction::mint", depth=1)
        ctx.must_pass("1.mint-always-executed", mb, [etc])

    with ctx.clause("2.mint-validated"):
        b = F.unit(f"{EX}::execute_mint").root
        oks = [c.bb for c in b.calls_to(f"{EX}::store_mint_tx")]
        for name in ("check_mint_has_expected_index", "check_gas_price"):
            c = ctx.one_call(b, f"{EX}::{name}")
            ctx.after_ok(f"2.stored-only-after-{name}", c, oks)
        zero = ctx.cmp_tests(b, "Eq", lhs="call:fuel_tx::transaction::field::InputContract::input_contract", rhs="call:fuel_types::array_types::ContractId::zeroed", depth=1)
        ve = ctx.one_call(b, f"{EX}::verify_mint_for_empty_contract")
        ca = ctx.one_call(b, f"{EX}::check_mint_amount")
        ctx.guarded("2.empty-recipient-arm", b, [ve], zero, truth=True)
        ctx.guarded("2.recipient-arm", b, [ca], zero, truth=False)
        for truth, c in ((True, ve), (False, ca)):
            edges = [(sw.bb, lab) for sw, pol in zero for lab in sw.edges_for_truth(truth if pol else not truth)]
            oke, _ = ctx.ok_edges(c)
            p = b.path([ctx._edge_target(b, e) for e in edges], oks, cut_edges=set(oke)) if edges and oke else [0]
            ctx.add(f"2.{c.name}-must-succeed", "DOM", p is None, f"on its arm the mint is stored only if {c.name} succeeded", sites=[c.where()], site_key=c.name)
        ctx.arg_origin("2.amount-vs-collected-fees", ca, 1, f"field:{ED}.coinbase", depth=0)
        gp = ctx.one_call(b, f"{EX}::check_gas_price")
        ctx.arg_origin("2.gas-price-vs-block-gas-price", gp, 1, "param:5", depth=0)
        for fn, lhs, rhs in (("check_mint_amount", "call:fuel_tx::transaction::field::MintAmount::mint_amount", "param:2"),
                             ("check_gas_price", "call:fuel_tx::transaction::field::MintGasPrice::gas_price", "param:2"),
                             ("check_mint_has_expected_index", "call:fuel_tx::tx_pointer::TxPointer::tx_index", f"field:{ED}.tx_count")):
            cb = F.unit(f"{EX}::{fn}").root
            t = ctx.cmp_tests(cb, "Ne", lhs=lhs, rhs=rhs, depth=1)
            ctx.test_leads_to_error(f"2.{fn}-rejects-mismatch", cb, t, truth=True)
            ctx.guarded(f"2.{fn}-ok-only-if-equal", cb, ctx.ok_return_blocks(cb), t, truth=False)
        vb = F.unit(f"{EX}::verify_mint_for_empty_contract").root
        t = ctx.cmp_tests(vb, "Ne", lhs="call:fuel_tx::transaction::field::MintAmount::mint_amount", rhs="const:0", depth=1)
        ctx.test_leads_to_error("2.empty-recipient-nonzero-amount-rejects", vb, t, truth=True)
        tb = F.unit(f"{EX}::execute_transaction").root
        execs = [c for c in tb.calls_to(f"{EX}::execute_chargeable_transaction", f"{EX}::execute_mint") if c.bb in tb.live]
        ctx.expect_sites("2.execution-arms", execs, at_least=2, what="execute_chargeable_transaction / execute_mint arms of execute_transaction")
        nfs = [c for c in tb.calls_to(f"{EX}::check_mint_is_not_found") if c.bb in tb.live]
        if len(nfs) == 1:
            ctx.after_ok("2.nothing-after-mint", nfs[0], execs, detail="no transaction (chargeable or a second mint) is executed after the mint")
        else:
            # the check may live in the callees instead: then it must be the first thing each of them does
            for e in execs:
                cu = F.unit(e.path)
                cbody = cu.root
                inner = [c for c in cbody.calls_to(f"{EX}::check_mint_is_not_found") if c.bb in cbody.live]
                others = [c for c in cbody.calls if c.bb in cbody.live and c not in inner and not c.path.startswith("core::")]
                okc = len(inner) == 1 and all(cbody.path([0], [o_.bb], cut_blocks=[inner[0].bb]) is None for o_ in others)
                ctx.add("2.nothing-after-mint", "DOM", okc, f"{e.name} at {e.where()} runs although a mint was already executed in this block: found_mint is not checked before it "
                        "(a block [.., mint, mint'] would validate and mint the fees twice)" if not okc else f"{e.name} checks found_mint first", sites=[e.where()], site_key=f"nf:{e.name}:{e.bb}")
        fb = F.unit(f"{EX}::check_mint_is_not_found").root
        t = ctx.value_tests(fb, f"field:{ED}.found_mint")
        ctx.test_leads_to_error("2.found-mint-rejects", fb, t, truth=True)
        units = {bd.unit for (k, bd, bb, s) in ctx.field_touches(ED, "found_mint", CR, kinds=("write", "refmut"))}
        ctx.add("2.found_mint-writers", "WMW", units <= {f"{EX}::execute_mint", f"{ED}::new"} and f"{EX}::execute_mint" in units, f"found_mint written in {sorted(units)}",
                sites=sorted(units), site_key="fm")
        gb = F.unit(f"{EX}::get_coinbase_info_from_mint_tx").root
        sws = ctx.enum_switches(gb, "fuel_tx::transaction::Transaction")
        oks = ctx.ok_return_blocks(gb)
        idx = ctx.variant_index("fuel_tx::transaction::Transaction", "Mint")
        edges = [(bb, lab) for (bb, sw, _) in sws for lab in sw.edge_for_value(idx)]
        ctx.dominated("2.last-tx-must-be-mint", gb, oks, by_edges=edges, detail="a block whose last transaction is not a mint is rejected")
        last = gb.calls_to("core::slice::<impl [T]>::last", "[T]::last")
        ctx.expect_sites("2.looks-at-last", last, exactly=1, what="transactions.last()")

    with ctx.clause("3.limits"):
        b = ctx.body_with(f"{EX}::process_l2_txs", f"{EX}::execute_transaction_and_commit")
        srcs = b.calls_to("fuel_core_executor::ports::TransactionsSource::next")
        ctx.expect_sites("3.source-requests", srcs, exactly=2, what="TransactionsSource::next requests")
        takes = b.calls_to("core::iter::traits::iterator::Iterator::take")
        ctx.expect_sites("3.takes", takes, exactly=2, what="take(remaining_tx_count)")
        for i, c in enumerate(sorted(srcs, key=lambda c: c.bb)):
            ctx.flows(f"3.source-{i}-truncated", c, to_call="core::iter::traits::iterator::Iterator::take", to_arg=0,
                      through_calls=("core::iter::traits::collect::IntoIterator::into_iter",))
            ctx.arg_origin(f"3.source-{i}-gas-budget", c, 1, "call:u64::saturating_sub", depth=0)
            ctx.arg_origin(f"3.source-{i}-count-budget", c, 2, "call:u16::saturating_sub", depth=0)
            ctx.arg_origin(f"3.source-{i}-size-budget", c, 3, "call:u32::saturating_sub", depth=0)
        for i, c in enumerate(sorted(takes, key=lambda c: c.bb)):
            ctx.arg_origin(f"3.take-{i}-count", c, 1, "call:u16::saturating_sub", depth=0)
        for fn, fld, lim in (("u64::saturating_sub", "used_gas", "call:fuel_tx::transaction::consensus_parameters::ConsensusParameters::block_gas_limit"),
                             ("u32::saturating_sub", "used_size", "call:fuel_tx::transaction::consensus_parameters::ConsensusParameters::block_transaction_size_limit"),
                             ("u16::saturating_sub", "tx_count", "call:fuel_core_executor::executor::max_tx_count")):
            cs = b.calls_to(fn)
            ctx.expect_sites(f"3.{fld}-budget-computations", cs, exactly=2, what=f"limit.saturating_sub(data.{fld})")
            for j, c in enumerate(sorted(cs, key=lambda c: c.bb)):
                ctx.arg_origin(f"3.{fld}-budget-{j}-used", c, 1, f"field:{ED}.{fld}", depth=0)
                ctx.arg_origin(f"3.{fld}-budget-{j}-limit", c, 0, lim, depth=1)
        etc = ctx.one_call(b, f"{EX}::execute_transaction_and_commit")
        # budgets are recomputed after every executed / skipped transaction
        nxt = [c for c in b.calls_to("core::iter::traits::iterator::Iterator::next")]
        after = b.reach([etc.target])
        recompute = [c for c in b.calls_to("u64::saturating_sub") if c.bb in after]
        ctx.add("3.budgets-recomputed-after-each-tx", "MPT", bool(recompute) and b.path([etc.target], [c.bb for c in nxt], cut_blocks=[c.bb for c in recompute]) is None,
                "the remaining gas is recomputed from data.used_gas before the next transaction", sites=[c.where() for c in recompute], site_key="recompute")
        cb = F.unit(f"{EX}::execute_transaction_and_commit").root
        add = ctx.one_call(cb, "u16::checked_add")
        bad, _ = ctx.ok_edges(add, polarity="bad", extra_transparent=("core::option::Option::ok_or",))
        errs = cb.error_blocks()
        ctx.add("3.tx-count-overflow-rejects", "REJECT", bool(bad) and all(cb.path([ctx._edge_target(cb, e)], cb.return_blocks(), cut_blocks=errs) is None for e in bad),
                "more than u16::MAX transactions is an error (no wrap-around)", sites=[add.where()], site_key="cnt")
        ctx.const_arg("3.count-by-one", add, 1, 1)

    with ctx.clause("4.accounting"):
        b = ctx.body_with(f"{EX}::update_execution_data", f"{EX}::total_fee_paid")
        fee = ctx.one_call(b, f"{EX}::total_fee_paid")
        errs = b.error_blocks()
        for fld, fn, what in (("coinbase", "u64::checked_add", "tx_fee"), ("used_gas", "u64::checked_add", "used_gas"), ("used_size", "u32::checked_add", "used_size")):
            units = {bd.unit for (k, bd, bb, s) in ctx.field_touches(ED, fld, CR, kinds=("write", "refmut"))}
            ctx.add(f"4.{fld}-writers", "WMW", units <= {f"{EX}::update_execution_data", f"{ED}::new"} and f"{EX}::update_execution_data" in units,
                    f"{fld} written in {sorted(x.split('::')[-1] for x in units)}", sites=sorted(units), site_key=fld)
            ws = [(bb, s) for (k, bd, bb, s) in ctx.field_touches(ED, fld, CR, kinds=("write",)) if bd is b]
            ctx.expect_sites(f"4.{fld}-write", [s.get("line") for _, s in ws], exactly=1, what=f"write of {fld}")
            for bb, s in ws:
                at = Origins(b, 1).atoms(s["rv"]["op"]) if s["rv"]["k"] == "use" else set()
                ctx.add(f"4.{fld}-checked-accumulation", "PROV", atom_match(at, f"call:{fn}") and atom_match(at, f"field:{ED}.{fld}") and
                        not atom_match(at, ["call:*wrapping_add", "call:*saturating_add"]),
                        f"{fld} accumulates through checked_add", sites=[str(s.get("line"))], site_key=fld + ":shape")
        adds = [c for c in b.calls_to("u64::checked_add", "u32::checked_add")]
        ctx.expect_sites("4.checked-adds", adds, exactly=3, what="checked additions in update_execution_data")
        for c in adds:
            bad, _ = ctx.ok_edges(c, polarity="bad", extra_transparent=("core::option::Option::ok_or", "core::option::Option::ok_or_else"))
            ctx.add(f"4.overflow-rejects-bb{c.bb}", "REJECT", bool(bad) and all(b.path([ctx._edge_target(b, e)], b.return_blocks(), cut_blocks=errs) is None for e in bad),
                    "accumulator overflow is an error", sites=[c.where()], site_key=f"ovf{c.bb}")
        feeadds = [c for c in b.calls_to("u64::checked_add") if atom_match(Origins(b, 0).atoms(c.args[1]), f"call:{EX}::total_fee_paid")]
        ctx.expect_sites("4.fee-and-gas-from-total_fee_paid", feeadds, exactly=2, what="additions of the (gas, fee) pair returned by total_fee_paid")
        # the same pair is stored in the status
        st = [s for bb, j, s in b.stmts() if bb in b.live and s["k"] == "assign" and s["rv"]["k"] == "agg" and
              s["rv"].get("adt") == "fuel_core_types::services::executor::TransactionExecutionResult"]
        ctx.expect_sites("4.status-aggregates", [s.get("line") for s in st], exactly=2, what="Success / Failed status aggregates")
        for s in st:
            f = s["rv"]["fields"]
            o = Origins(b, 0)
            okk = atom_match(o.atoms(s["rv"]["ops"][f.index("total_gas")]), f"call:{EX}::total_fee_paid") and \
                atom_match(o.atoms(s["rv"]["ops"][f.index("total_fee")]), f"call:{EX}::total_fee_paid")
            ctx.add(f"4.status-{s['rv']['variant']}-reports-charged-values", "PROV", okk, "the status reports the gas and fee that were charged",
                    sites=[str(s.get("line"))], site_key=s["rv"]["variant"])
        ctx.only_callers("4.update-callers", f"{EX}::update_execution_data", [f"{EX}::execute_chargeable_transaction"], CR)

    # -- the fee of a transaction enters the block totals (and so the mint amount) only once the transaction is definitely included --
    from exec_common import totals_updated_last
    totals_updated_last(ctx, "7")
