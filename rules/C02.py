"""C02 — executed blocks conserve UTXOs and report exact coin and message events (DESIGN §7 C02)."""
import os, sys
sys.path.insert(0, os.path.dirname(os.path.abspath(__file__)))
from core import AnchorMissing, Origins, atom_match
from exec_common import *

LEVEL = "other"
EXPLANATION = """
Structural necessary conditions of C02 in fuel_core_executor, for all paths: (1) who-may-write:
Coins is removed only in spend_input_utxos (take) and inserted only in insert_coin (replace);
Messages is removed only in spend_input_utxos and inserted only in process_da;
ContractsLatestUtxo is written only in persist_output_utxos; (2) event <=> table change pairing:
every Coins.take is followed by a CoinConsumed event, every Coins.replace by CoinCreated, every
Messages.insert by MessageImported, every Messages.take by MessageConsumed on all success paths,
and each of these event variants is constructed only in those functions; (3) insert_coin writes
only when amount > 0 and rejects an already existing id (replace(..).is_some() => error);
(4) with forbid_fake_coins the inputs are verified (extra_tx_checks, which must pass
verify_inputs_exist_and_values_match) before the VM runs; verify_inputs_exist_and_values_match
matches Input without wildcard and every coin / message arm rejects a missing or mismatching
entry, and a message whose DA height is above the block's; (5) spending a message that does not
exist is an error; spend_input_utxos matches every spendable input kind.
"""
NOT_DECIDED = """The set equality "events = UTXO difference" as a relation over values; the clauses are
its per-site necessary conditions. The fallback get_coin_or_default (utxo validation off) is by design."""


def check(ctx):
    F = ctx.F
    with ctx.clause("1.table-writers"):
        ctx.only_table_writers("1.coins", "Coins", {f"{EX}::spend_input_utxos": {"take"}, f"{EX}::insert_coin": {"replace"}}, CR)
        ctx.only_table_writers("1.messages", "Messages", {f"{EX}::spend_input_utxos": {"take"}, f"{EX}::process_da": {"insert"}}, CR)
        ctx.only_table_writers("1.contracts-latest-utxo", "ContractsLatestUtxo", {f"{EX}::persist_output_utxos": {"insert"}}, CR, min_sites=2)

    with ctx.clause("2.events"):
        sb = F.unit(f"{EX}::spend_input_utxos").root
        ib = F.unit(f"{EX}::insert_coin").root
        db = ctx.body_with(f"{EX}::process_da", "fuel_core_executor::ports::RelayerPort::get_events")
        for name, body, table, op, variant in (("coin-consumed", sb, "Coins", "take", "CoinConsumed"),
                                               ("coin-created", ib, "Coins", "replace", "CoinCreated"),
                                               ("message-imported", db, "Messages", "insert", "MessageImported"),
                                               ("message-consumed", sb, "Messages", "take", "MessageConsumed")):
            ops = table_calls(ctx, body, table, (op,))
            ctx.expect_sites(f"2.{name}-table-op", ops, exactly=1, what=f"{table}.{op} in {body.unit.split('::')[-1]}")
            pushes = event_pushes(body, variant)
            ctx.expect_sites(f"2.{name}-event", pushes, exactly=1, what=f"Event::{variant} push")
            for c in ops:
                ctx.paired(f"2.{name}-paired", c, pushes, on="any", detail=f"every {table}.{op} is reported as Event::{variant}")
            for p in pushes:
                ctx.dominated(f"2.{name}-only-after-table-op", body, [p], by_blocks=ops, detail=f"Event::{variant} is emitted only after the table change")
                ctx.arg_origin(f"2.{name}-into-events", p, 0, "field:fuel_core_executor::executor::ExecutionData.events")
        table = {"CoinConsumed": {f"{EX}::spend_input_utxos"}, "CoinCreated": {f"{EX}::insert_coin"},
                 "MessageImported": {f"{EX}::process_da"}, "MessageConsumed": {f"{EX}::spend_input_utxos"},
                 "ForcedTransactionFailed": {f"{EX}::process_da", f"{EX}::process_relayed_txs"}}
        for v in ctx.variants(EVENT) if False else [v["n"] for v in F.adt(EVENT)["variants"]]:
            got = event_constructors(ctx, v)
            ctx.add(f"2.constructors-{v}", "WMC", got == table.get(v, set()), f"Event::{v} is constructed in {sorted(x.split('::')[-1] for x in got)}",
                    sites=sorted(got), site_key=v)
        # the consumed coin event describes the coin that was taken (or the default for unchecked mode)
        t = table_calls(ctx, sb, "Coins", ("take",))[0]
        ctx.flows("2.consumed-event-carries-taken-coin", t, to_call="fuel_core_types::entities::coins::coin::CompressedCoin::uncompress",
                  through_calls=("core::result::Result::map_err", "core::result::Result::transpose", "core::option::Option::unwrap_or_else"))

    with ctx.clause("3.insert_coin"):
        ib = F.unit(f"{EX}::insert_coin").root
        rep = table_calls(ctx, ib, "Coins", ("replace",))
        pos = ctx.cmp_tests(ib, "Gt", lhs="param:4", rhs="const:0")
        ctx.guarded("3.non-zero-amount", ib, rep, pos, truth=True, detail="only coins with a non-zero amount are created")
        dup = ctx.value_tests(ib, f"call:{REPLACE}")
        dup = [t for t in dup] or ctx.call_tests(ib, "core::option::Option::is_some")
        ctx.test_leads_to_error("3.existing-id-rejects", ib, ctx.call_tests(ib, "core::option::Option::is_some"), truth=True,
                                detail="creating a coin under an id that already exists is an error")
        for c in ib.calls_to("core::option::Option::is_some"):
            ctx.arg_origin("3.is_some-of-replace", c, 0, f"call:{REPLACE}")
        ctx.only_callers("3.insert_coin-callers", f"{EX}::insert_coin", [f"{EX}::persist_output_utxos"], CR, min_sites=3)
        pb = F.unit(f"{EX}::persist_output_utxos").root
        ctx.dispatch_total("3.output-dispatch", pb, OUTPUT)
        arms = ctx.match_arms(pb, OUTPUT)
        for v in ("Coin", "Change", "Variable"):
            cs = [c for c in pb.calls_to(f"{EX}::insert_coin") if c.bb in arms.get(v, set())]
            ctx.expect_sites(f"3.{v}-output-creates-coin", cs, exactly=1, what=f"insert_coin on Output::{v}")

    with ctx.clause("4.inputs-exist"):
        cb = F.unit(f"{EX}::execute_chargeable_transaction").root
        extra = ctx.one_call(cb, f"{EX}::extra_tx_checks")
        vm = ctx.one_call(cb, f"{EX}::attempt_tx_execution_with_vm")
        flag = ctx.value_tests(cb, "field:fuel_core_executor::executor::ExecutionOptionsInner.forbid_fake_coins")
        ctx.guarded("4.checks-under-flag", cb, [extra], flag, truth=True)
        edges = [(sw.bb, lab) for sw, pol in flag for lab in sw.edges_for_truth(True if pol else False)]
        okedges, _ = ctx.ok_edges(extra)
        starts = [ctx._edge_target(cb, e) for e in edges]
        p = cb.path(starts, [vm.bb], cut_edges=set(okedges)) if starts and okedges else [0]
        ctx.add("4.verified-before-vm", "DOM", p is None, "with forbid_fake_coins the VM runs only after extra_tx_checks succeeded",
                sites=[extra.where()], site_key=cb.defq, witness=None if p is None else {"path": cb.describe_path(p)})
        eb = ctx.body_with(f"{EX}::extra_tx_checks", f"{EX}::verify_inputs_exist_and_values_match")
        ctx.must_pass("4.extra-checks-verify-inputs", eb, eb.calls_to(f"{EX}::verify_inputs_exist_and_values_match"))
        vb = F.unit(f"{EX}::verify_inputs_exist_and_values_match").root
        ctx.dispatch_total("4.verify-input-dispatch", vb, INPUT)
        arms = ctx.match_arms(vb, INPUT)
        errs = vb.error_blocks()
        for kind, variants, table, matches in (("coin", ("CoinSigned", "CoinPredicate"), "Coins", "fuel_core_types::entities::coins::coin::CompressedCoin::matches_input"),
                                               ("message", ("MessageCoinSigned", "MessageCoinPredicate", "MessageDataSigned", "MessageDataPredicate"), "Messages",
                                                "fuel_core_types::entities::relayer::message::Message::matches_input")):
            gets = [c for c in ctx.table_ops(table, CR, reads=True) if c.body is vb]
            ctx.expect_sites(f"4.{kind}-lookup", gets, exactly=1, what=f"{table}.get in verify_inputs_exist_and_values_match")
            for v in variants:
                ctx.add(f"4.{kind}-{v}-looked-up", "DISPATCH", all(g.bb in arms.get(v, set()) for g in gets) and bool(gets),
                        f"Input::{v} is looked up in {table}", sites=[g.where() for g in gets], site_key=v)
            for g in gets:
                opt = ctx.discr_switches(vb, "core::option::Option", f"call:{g.path}")
                opt = [s for s in opt if s.bb in vb.reach([g.target])]
                none_t = [ctx._edge_target(vb, (s.bb, lab)) for s in opt for lab in s.edge_for_value(0)]
                ctx.add(f"4.{kind}-missing-rejects", "REJECT", bool(none_t) and vb.path(none_t, vb.return_blocks(), cut_blocks=errs) is None,
                        f"an input whose {kind} does not exist is rejected", sites=[g.where()], site_key=kind)
            mt = ctx.value_tests(vb, f"call:{matches}")
            ctx.test_leads_to_error(f"4.{kind}-mismatch-rejects", vb, mt, truth=False, detail=f"input fields must agree with the stored {kind}")
        early = ctx.cmp_tests(vb, "Gt", lhs="call:fuel_core_types::entities::relayer::message::Message::da_height", rhs="param:4")
        ctx.test_leads_to_error("4.message-too-early-rejects", vb, early, truth=True, detail="a message above the block's DA height cannot be spent")
        ck = ctx.call_tests(vb, "fuel_storage::StorageRef::contains_key")
        ctx.test_leads_to_error("4.contract-missing-rejects", vb, ck, truth=False) if ck else ctx.test_leads_to_error(
            "4.contract-missing-rejects", vb, ctx.value_tests(vb, "call:fuel_storage::StorageRef::contains_key"), truth=False)

    with ctx.clause("5.spending"):
        sb = F.unit(f"{EX}::spend_input_utxos").root
        mt = table_calls(ctx, sb, "Messages", ("take",))[0]
        bad, _ = ctx.ok_edges(mt, polarity="bad", extra_transparent=("core::option::Option::ok_or",))
        errs = sb.error_blocks()
        ctx.add("5.missing-message-is-error", "REJECT", bool(bad) and all(
            sb.path([ctx._edge_target(sb, e)], sb.return_blocks(), cut_blocks=errs) is None for e in bad),
            "spending a message that is not in the table is an error", sites=[mt.where()], site_key="msg")
        arms = ctx.match_arms(sb, INPUT)
        ct = table_calls(ctx, sb, "Coins", ("take",))[0]
        for v in ("CoinSigned", "CoinPredicate"):
            ctx.add(f"5.{v}-takes-coin", "DISPATCH", ct.bb in arms.get(v, set()), f"Input::{v} removes its coin", sites=[ct.where()], site_key=v)
        for v in ("MessageCoinSigned", "MessageCoinPredicate", "MessageDataSigned", "MessageDataPredicate"):
            ctx.add(f"5.{v}-takes-message", "DISPATCH", mt.bb in arms.get(v, set()), f"Input::{v} removes its message", sites=[mt.where()], site_key=v)
        ctx.only_callers("5.spend-callers", f"{EX}::spend_input_utxos", [f"{EX}::execute_chargeable_transaction"], CR)
