"""C17 — pool dependencies stay acyclic, diamond-free and cascade on removal (DESIGN §7 C17)."""
from core import AnchorMissing, Origins, atom_match
from rules import ITER_FLOW

LEVEL = "other"
EXPLANATION = """
Structural necessary conditions of C17 in fuel_core_txpool, for all paths: (1) the non-cascading
removals (Storage::remove_transaction, selection-storage remove) are called only from the inclusion
paths (process_committed_transactions, process_preconfirmed_committed_transaction, gather_best_txs);
every other removal in Pool cascades (remove_transaction_and_dependents_subtree);
(2) GraphStorage::can_store_transaction returns Ok only past the diamond test
(all_dependencies.contains(node) true => error), the chain-length tests (len >= max, dependents in
chain >= max => error) and extends its work list with the direct dependencies of every visited
node; collect_transaction_direct_dependencies matches Input without wildcard; (3) a transaction
becomes executable (SelectionAlgorithm::new_executable_transaction) only where it has no pooled
dependencies: the reviewed call sites, each guarded by `has_dependencies` false (directly or at the
push into the promotion list); gather_best_txs extracts only ids taken from the executable map;
(4) bfs enqueues every direct dependent of a removed node, returns every removed entry, and store_transaction
adds an edge from every direct dependency. (5) the dependency test of process_committed_transactions is asked about the very dependent that is pushed to the promotion list; in can_store_transaction the visited ancestor is inserted into the set before its size is compared with the chain limit.
"""
NOT_DECIDED = """Graph-theoretic invariants as such (acyclicity is argued from the diamond/chain checks
and edge direction); numeric chain limits."""

CR = ["fuel_core_txpool"]
POOL = "fuel_core_txpool::pool::Pool"
STORAGE = "fuel_core_txpool::storage::Storage"
GS = "fuel_core_txpool::storage::graph::GraphStorage"
SA = "fuel_core_txpool::selection_algorithms::SelectionAlgorithm"
SEL = "fuel_core_txpool::selection_algorithms::ratio_tip_gas::RatioTipGasSelection"
RST = "fuel_core_txpool::selection_algorithms::ratio_tip_gas::RatioTipGasSelectionAlgorithmStorage"
INPUT = "fuel_tx::transaction::types::input::Input"


def check(ctx):
    F = ctx.F
    with ctx.clause("1.non-cascading-removals"):
        ctx.only_callers("1.single-removal-callers", f"{STORAGE}::remove_transaction",
                         [f"{POOL}::process_committed_transactions", f"{POOL}::process_preconfirmed_committed_transaction"], CR,
                         must=[f"{POOL}::process_committed_transactions", f"{POOL}::process_preconfirmed_committed_transaction"],
                         detail="removal without dependents is reserved for inclusion")
        ctx.only_callers("1.selection-removal-callers", f"{RST}::remove", [f"<{SEL} as {SA}>::gather_best_txs"], CR,
                         must=[f"<{SEL} as {SA}>::gather_best_txs"])
        ctx.only_callers("1.raw-remove-node", "petgraph::graph_impl::stable_graph::StableGraph::remove_node",
                         [f"{GS}::bfs", f"<{GS} as {STORAGE}>::remove_transaction", f"<{GS} as {RST}>::remove"], CR)
        ctx.only_callers("1.cascade-goes-through-bfs", f"{GS}::remove_node_and_dependent_sub_graph",
                         [f"<{GS} as {STORAGE}>::remove_transaction_and_dependents_subtree"], CR)

    with ctx.clause("2.can_store_transaction"):
        b = F.unit(f"<{GS} as {STORAGE}>::can_store_transaction").root
        oks = ctx.ok_return_blocks(b)
        ctx.expect_sites("2.ok-return", sorted(oks), exactly=1, what="Ok(CheckedTransaction) return")
        diamond = ctx.call_tests(b, "std::collections::hash::set::HashSet::contains")
        ctx.test_leads_to_error("2.diamond-rejects", b, diamond, truth=True, detail="reaching an ancestor through two paths is rejected")
        chain = ctx.cmp_tests(b, "Ge", lhs="call:std::collections::hash::set::HashSet::len", rhs=f"field:fuel_core_txpool::storage::graph::GraphConfig.max_txs_chain_count")
        ctx.test_leads_to_error("2.chain-too-long-rejects", b, chain, truth=True)
        chain2 = ctx.cmp_tests(b, "Ge", lhs="field:fuel_core_txpool::storage::StorageData.number_dependents_in_chain",
                               rhs="field:fuel_core_txpool::storage::graph::GraphConfig.max_txs_chain_count")
        ctx.test_leads_to_error("2.dependents-chain-too-long-rejects", b, chain2, truth=True)
        # every popped node passes the diamond test and has its dependencies pushed
        pop = ctx.one_call(b, "alloc::vec::Vec::pop")
        some, _ = ctx.ok_edges(pop)
        starts = [ctx._edge_target(b, e) for e in some]
        ext = [c for c in b.calls_to("core::iter::traits::collect::Extend::extend")
               if atom_match(Origins(b, 1).atoms(c.args[1]), f"call:{GS}::get_direct_dependencies")]
        ctx.expect_sites("2.extend-with-dependencies", ext, exactly=1, what="to_check.extend(get_direct_dependencies(node))")
        tests_b = [sw.bb for sw, _ in diamond]
        p = b.path(starts, [pop.bb], cut_blocks=tests_b + list(b.error_blocks()))
        ctx.add("2.every-node-diamond-tested", "MPT", bool(starts) and p is None, "every visited dependency is tested against the visited set",
                sites=[f"bb{x}" for x in tests_b], site_key=b.defq)
        # the only way back to the pop without extending is the missing-node `continue` (listed exception)
        nw = b.calls_to("petgraph::graph_impl::stable_graph::StableGraph::node_weight")
        none_edges = [e for c in nw for e in ctx.ok_edges(c, polarity="bad")[0]]
        p = b.path(starts, [pop.bb], cut_blocks=[c.bb for c in ext] + list(b.error_blocks()), cut_edges=set(none_edges))
        ctx.add("2.dependencies-followed", "MPT", bool(starts) and p is None,
                "the traversal continues with the direct dependencies of every visited node (transitive closure)",
                sites=[c.where() for c in ext], site_key=b.defq + ":extend")
        coll = ctx.one_call(b, f"{GS}::collect_transaction_direct_dependencies")
        ctx.after_ok("2.direct-dependencies-first", coll, oks)
        cb = F.unit(f"{GS}::collect_transaction_direct_dependencies").root
        ctx.dispatch_total("2.direct-dependencies-input-dispatch", cb, INPUT)
        arms = ctx.match_arms(cb, INPUT)
        for v, fld in (("CoinSigned", "coins_creators"), ("CoinPredicate", "coins_creators"), ("Contract", "contracts_creators")):
            ops = ctx.field_ops(cb, arms.get(v, set()), GS)
            ctx.add(f"2.dependency-lookup-{v}", "DISPATCH", (fld, "get") in ops, f"Input::{v} looks its creator up in {fld}", sites=sorted(map(str, ops)), site_key=v)

    with ctx.clause("3.parents-first"):
        NE = f"{SA}::new_executable_transaction"
        allowed = [f"{POOL}::insert_inner", f"{POOL}::process_committed_transactions", f"{POOL}::process_preconfirmed_committed_transaction",
                   f"<{SEL} as {SA}>::gather_best_txs"]
        ctx.only_callers("3.executable-promotion-sites", NE, allowed, CR, must=allowed, min_sites=4)
        HD = (f"{STORAGE}::has_dependencies", f"{RST}::has_dependencies")
        # insert_inner: guarded by `!has_dependencies` where has_dependencies = !all_dependencies().is_empty()
        ib = ctx.body_with(f"{POOL}::insert_inner", NE)
        t = ctx.value_tests(ib, "call:std::collections::hash::set::HashSet::is_empty", depth=1)
        ctx.guarded("3.insert-executable-only-without-dependencies", ib, ib.calls_to(NE), t, truth=True,
                    detail="a new transaction is executable only if all_dependencies() is empty")
        for c in ib.calls_to("std::collections::hash::set::HashSet::is_empty"):
            ctx.arg_origin("3.insert-dependencies-of-checked-tx", c, 0, "call:fuel_core_txpool::storage::CheckedTransaction::all_dependencies")
        # preconfirmed-committed: direct guard
        pb = ctx.body_with(f"{POOL}::process_preconfirmed_committed_transaction", NE)
        t = ctx.call_tests(pb, HD)
        ctx.guarded("3.preconfirmed-promotes-only-free-dependents", pb, pb.calls_to(NE), t, truth=False)
        # committed / gather: promotion list is filled only under the guard, and promotions come from that list
        for name, b, nes in (("committed", ctx.body_with(f"{POOL}::process_committed_transactions", NE), None),
                             ("gather", F.unit(f"<{SEL} as {SA}>::gather_best_txs").root, None)):
            t = ctx.call_tests(b, HD)
            # the promotion list: the vector whose elements are handed to new_executable_transaction
            pushes = [c for c in b.calls_to("alloc::vec::Vec::push")
                      if any(ctx.same_local(b, c.args[0], ne.args[1], depth=2) for ne in b.calls_to(NE))]
            ctx.expect_sites(f"3.{name}-promotion-push", pushes, exactly=1, what="push into transactions_to_promote")
            ctx.guarded(f"3.{name}-promotes-only-free-dependents", b, pushes, t, truth=False,
                        detail="only dependents without remaining pooled dependencies are promoted")
            for c in b.calls_to(NE):
                ctx.add(f"3.{name}-promotion-from-list", "PROV", any(ctx.same_local(b, p_.args[0], c.args[1], depth=2) for p_ in pushes),
                        "promotions come from the list filled under the guard", sites=[c.where()], site_key=f"{name}:{c.bb}")
        gb = F.unit(f"<{SEL} as {SA}>::gather_best_txs").root
        rm = ctx.one_call(gb, f"{RST}::remove")
        ctx.arg_origin("3.gather-extracts-executables-only", rm, 1, f"field:{SEL}.executable_transactions_sorted_tip_gas_ratio", depth=2)

    with ctx.clause("4.cascade"):
        b = F.unit(f"{GS}::bfs").root
        rn = ctx.one_call(b, "petgraph::graph_impl::stable_graph::StableGraph::remove_node")
        dep = ctx.one_call(b, f"{GS}::get_direct_dependents")
        ctx.dominated("4.dependents-read-before-removal", b, [rn], by_blocks=[dep], detail="dependents are collected before the node disappears")
        pushes = [c for c in b.calls_to("alloc::collections::vec_deque::VecDeque::push_back")]
        enq = [c for c in pushes if atom_match(Origins(b, 3).atoms(c.args[1]), f"call:{GS}::get_direct_dependents")]
        ctx.expect_sites("4.dependents-enqueued", enq, exactly=1, what="queue.push_back(dependent)")
        # loop over dependents: every element is enqueued
        nxt = [c for c in b.calls_to("core::iter::traits::iterator::Iterator::next")
               if atom_match(Origins(b, 3).atoms(c.args[0]), f"call:{GS}::get_direct_dependents")]
        ctx.expect_sites("4.dependents-loop", nxt, exactly=1, what="loop over the direct dependents")
        if nxt and enq:
            some, _ = ctx.ok_edges(nxt[0])
            starts = [ctx._edge_target(b, e) for e in some]
            p = b.path(starts, [nxt[0].bb], cut_blocks=[enq[0].bb])
            ctx.add("4.every-dependent-enqueued", "MPT", bool(starts) and p is None, "every direct dependent of a removed node is enqueued for removal",
                    sites=[enq[0].where()], site_key=b.defq)
        ctx.arg_origin("4.removes-dequeued-node", rn, 1, "call:alloc::collections::vec_deque::VecDeque::pop_front", depth=1)
        ctx.flows("4.removed-entries-returned", rn, to_return=True, through_calls=("core::option::Option::expect",) + tuple(ITER_FLOW))
        sb = F.unit(f"<{GS} as {STORAGE}>::store_transaction").root
        ae = ctx.one_call(sb, "petgraph::graph_impl::stable_graph::StableGraph::add_edge")
        ctx.arg_origin("4.edge-from-dependency", ae, 1, "call:fuel_core_txpool::storage::checked_collision::CheckedTransaction::unpack", depth=2)
        ctx.arg_origin("4.edge-to-new-node", ae, 2, "call:petgraph::graph_impl::stable_graph::StableGraph::add_node", depth=0)

    # -- 5. details the guards depend on: which transaction is tested, and when the ancestor is counted --
    with ctx.clause("5.guard-operands"):
        cb = ctx.body_with(f"{POOL}::process_committed_transactions", f"{SA}::new_executable_transaction")
        HD5 = "fuel_core_txpool::storage::Storage::has_dependencies"
        hd = [c for c in cb.calls_to(HD5) if c.bb in cb.live]
        nes5 = [c for c in cb.calls_to(f"{SA}::new_executable_transaction") if c.bb in cb.live]
        pushes5 = [c for c in cb.calls_to("alloc::vec::Vec::push") if any(ctx.same_local(cb, c.args[0], ne.args[1], depth=2) for ne in nes5)]
        ctx.expect_sites("5.committed-dependency-test", hd, exactly=1, what="has_dependencies(..) test in process_committed_transactions")
        if hd and pushes5:
            ctx.add("5.tested-transaction-is-the-promoted-one", "PROV", all(ctx.same_local(cb, hd[0].args[1], p5.args[1], depth=1) for p5 in pushes5),
                    "has_dependencies is asked about the dependent that is about to be promoted (not about the committed transaction that was just removed, for which it is always false)",
                    sites=[hd[0].where()] + [p5.where() for p5 in pushes5], site_key="same")
        gb = F.unit(f"<{GS} as {STORAGE}>::can_store_transaction").root
        pop = ctx.one_call(gb, "alloc::vec::Vec::pop")
        ins5 = [c for c in gb.calls if c.bb in gb.live and c.name == "insert" and "HashSet" in c.path]
        lens = [c for c in gb.calls if c.bb in gb.live and c.name == "len" and "HashSet" in c.path]
        ctx.expect_sites("5.ancestor-recorded", ins5, exactly=1, what="all_dependencies.insert(node_id)")
        ctx.expect_sites("5.ancestor-count-read", lens, exactly=1, what="all_dependencies.len()")
        if ins5 and lens:
            some5, _ = ctx.ok_edges(pop)
            st5 = [ctx._edge_target(gb, e) for e in some5]
            ctx.add("5.ancestor-counted-before-the-limit-test", "ORDER", gb.path(st5, [lens[0].bb], cut_blocks=[ins5[0].bb]) is None,
                    "the ancestor just visited is inserted before the number of ancestors is compared with max_txs_chain_count (otherwise a chain one longer than the limit is accepted)",
                    sites=[ins5[0].where(), lens[0].where()], site_key="order")
            ctx.add("5.recorded-and-counted-set-are-the-same", "PROV", ctx.same_local(gb, ins5[0].args[0], lens[0].args[0]), "insert and len act on the same set", sites=[lens[0].where()], site_key="set")
            ctx.arg_origin("5.recorded-node-is-the-visited-one", ins5[0], 1, "call:alloc::vec::Vec::pop", depth=1)
