"""C43 — block aggregator conversions preserve blocks (DESIGN §7 C43): field agreement of the two directions + contiguity guard."""
from core import AnchorMissing, Origins, atom_match

LEVEL = "other"
EXPLANATION = """
Sibling agreement of the two conversion directions of fuel_core_block_aggregator_api::…::convertor_adapter:
(1) forward (fuel_to_proto_conversions): every field f of every protobuf struct that is built is filled from a
source place or accessor of the same name f (owner <- .owner, balance_root <- .balance_root, ra <- ra …; a short
frozen alias table covers the renamed ones), so two same-typed fields cannot be cross-wired; a field may be a
constant only where the source variant has no such datum (frozen table: metadata, the predicate fields of signed
inputs, witness_index of predicate inputs, data of coin messages); no struct is completed with
Default::default(). (2) reverse (proto_to_fuel_conversions): for every protobuf struct the set of fields read by
the reverse functions equals the set of fields the forward direction fills from the source, except the
header fields that are recomputed from the block body (frozen list) — a field written forward and never read
back, or read back but written as a constant, breaks the round trip. (3) every match over Transaction, Input,
Output, Receipt, UpgradePurpose, ScriptExecutionResult, BlockHeader (forward) and over the protobuf variant
enums (reverse) lists every variant without wildcard, and the arm for variant X builds / calls the constructor
of variant X in the other representation. (4) StorageDB::store_block: the insert of the block and of the latest
height happens only when there is no current height or the new height is its successor (`height != next` leads
to the error exit); both inserts and the commit belong to one storage transaction and each failure propagates. (5) fuel_block_from_protobuf: the Revert/Panic test and the message-id collection act on the receipts of the transaction of the current iteration, ids are taken only from successful transactions, and Block::new regenerates the header from exactly those ids, the converted transactions and the converted header.
"""
NOT_DECIDED = """Order of positional constructor arguments of the same type in the reverse direction (e.g. ra/rb of a Log receipt), byte-level
encodings (as_ref/try_from lengths), values of recomputed header fields."""

B = "fuel_core_block_aggregator_api::blocks::old_block_source::convertor_adapter"
CR = "fuel_core_block_aggregator_api"
PB = "fuel_core_protobuf::blockaggregator"
WRAPPERS = {"variant", "0", "versioned_header"}
# proto field <- differently named source accessor (one line of reason each)
ALIAS = {
    ("V1Header", "block_id"): {"id"},                           # header.id()
    ("V2Header", "block_id"): {"id"},
    ("UpgradeTransaction", "purpose"): {"upgrade_purpose"},      # accessor is upgrade_purpose()
    ("UploadTransaction", "root"): {"bytecode_root"},            # accessor is bytecode_root()
    ("UploadTransaction", "witness_index"): {"bytecode_witness_index"},
    ("BlobTransaction", "witness_index"): {"bytecode_witness_index"},
    ("Policies", "values"): {"get"},                             # policies.get(PolicyType) per slot
    ("ScriptExecutionResultGenericFailure", "code"): {"0"},      # GenericFailure(code)
    ("Receipts", "receipts"): {"proto_receipt_from_receipt", "map"},
}
# fields the source variant has no datum for: constant in the forward direction, not read in the reverse one
CONST_OK = {
    "CoinSignedInput": {"predicate", "predicate_data", "predicate_gas_used"},
    "CoinPredicateInput": {"witness_index"},
    "MessageCoinSignedInput": {"data", "predicate", "predicate_data", "predicate_gas_used"},
    "MessageCoinPredicateInput": {"data", "witness_index"},
    "MessageDataSignedInput": {"predicate", "predicate_data", "predicate_gas_used"},
    "MessageDataPredicateInput": {"witness_index"},
}
META = {"metadata"}
# header fields regenerated from the block body by fuel_block_from_protobuf (Block::new): not read back
DERIVED = {"V1Header": {"application_hash", "block_id", "message_outbox_root", "message_receipt_count", "transactions_count", "transactions_root"},
           "V2Header": {"application_hash", "block_id", "message_outbox_root", "message_receipt_count", "transactions_count", "transactions_root", "tx_id_commitment"}}


# protobuf cannot name a message `Return`; the fuel constructor of that receipt is Receipt::ret
VARIANT_ALIAS = {"Return": "ReturnReceipt"}
REV_ALIAS = {"ReturnReceipt": "ret"}


def short(a):
    return a.split("::")[-1]


def proto_aggs(u):
    for b in u.bodies:
        for bb, j, s in b.stmts():
            rv = s.get("rv") or {}
            if bb in b.live and s["k"] == "assign" and rv.get("k") == "agg" and rv.get("ak") == "adt" and (rv.get("adt") or "").startswith("fuel_core_protobuf") and rv.get("fields"):
                yield b, s


def check(ctx):
    F = ctx.F
    fw = F.find_units(f"{B}::fuel_to_proto_conversions::*", CR)
    rv = F.find_units(f"{B}::proto_to_fuel_conversions::*", CR)
    ctx.expect_sites("0.forward-functions", [u.q for u in fw], at_least=15, what="fuel -> proto conversion functions")
    ctx.expect_sites("0.reverse-functions", [u.q for u in rv], at_least=15, what="proto -> fuel conversion functions")

    filled = {}      # struct -> fields filled from the source
    consts = {}      # struct -> fields set to a constant
    with ctx.clause("1.forward-name-agreement"):
        n = 0
        bad = []
        for u in fw:
            origins = {}
            for b, s in proto_aggs(u):
                o = origins.setdefault(id(b), Origins(b, 5))
                st = short(s["rv"]["adt"])
                if st == "Variant":
                    continue
                for f, op in zip(s["rv"]["fields"], s["rv"]["ops"]):
                    if f in WRAPPERS:
                        continue
                    n += 1
                    at = o.atoms(op)
                    names = {str(v).split(".")[-1] for k, v in at if k == "field"} | {str(v).split("::")[-1] for k, v in at if k == "call"} | \
                            {str(v) for k, v in at if k in ("local", "upvar", "param")}
                    src = {x for x in names if x not in ("new", "to_vec", "as_ref", "into", "from", "collect", "iter", "map", "clone", "Some", "bytes32_to_vec", "as_slice")}
                    has_src = any(k in ("field", "param", "upvar") for k, v in at) or any(k == "call" and not str(v).startswith(("alloc::", "core::")) for k, v in at)
                    if f in names or (ALIAS.get((st, f), set()) & names):
                        filled.setdefault(st, set()).add(f)
                    elif not has_src and (f in META or f in CONST_OK.get(st, ())):
                        consts.setdefault(st, set()).add(f)
                    elif not has_src:
                        bad.append((u, s, st, f, "is a constant although the source carries this datum (not in the frozen constant table)"))
                    else:
                        bad.append((u, s, st, f, f"is filled from {sorted(src)[:6]} — no source place or accessor named `{f}`"))
        ctx.add("1.fields-checked", "COUNT", n >= 220, f"{n} protobuf field initialisers analysed in the forward direction", sites=[str(n)], site_key="n")
        for u, s, st, f, why in bad:
            ctx.add("1.field-from-same-named-source", "FIELDCOV", False, f"{st}.{f} in {short(u.q)} (line {s.get('line')}) {why}", sites=[f"{u.root.file}:{s.get('line')}"], site_key=f"{st}.{f}")
        if not bad:
            ctx.add("1.field-from-same-named-source", "FIELDCOV", True, f"every protobuf field is filled from the source datum of the same name ({len(ALIAS)} frozen aliases, {sum(map(len, CONST_OK.values()))} frozen constants)",
                    sites=sorted(filled)[:12], site_key="all")
        dfl = [c for u in fw for x in u.bodies for c in x.calls if c.bb in x.live and c.name in ("default", "unwrap_or_default")]
        ctx.expect_sites("1.no-default-completion", dfl, exactly=0, what="Default::default() in the forward conversions (a struct completed with defaults silently drops fields)")

    with ctx.clause("2.reverse-reads-what-forward-writes"):
        read = {}

        def walk(x):
            if isinstance(x, dict):
                if "fa" in x:
                    ps = [p for p in (x.get("p") or []) if p.startswith(".")]
                    for a, p in zip(x.get("fa") or [], ps):
                        if a and a.startswith("fuel_core_protobuf"):
                            read.setdefault(short(a), set()).add(p[1:])
                for v in x.values():
                    walk(v)
            elif isinstance(x, list):
                for v in x:
                    walk(v)
        for u in rv:
            for b in u.bodies:
                for i in b.live:
                    walk(b.blocks[i])
        ctx.expect_sites("2.structs", sorted(filled), at_least=35, what="protobuf structs filled by the forward direction")
        okall = True
        for st in sorted(set(filled) | set(consts)):
            want = (filled.get(st, set()) - WRAPPERS) - DERIVED.get(st, set())
            got = read.get(st, set())
            missing = sorted(want - got)
            extra = sorted((got & consts.get(st, set())))
            if missing:
                okall = False
                ctx.add("2.field-read-back", "FIELDCOV", False, f"{st}: the forward direction fills {missing} from the block but no reverse function reads it back (the datum is lost in the round trip)",
                        sites=[st], site_key=f"{st}:missing:{','.join(missing)}")
            if extra:
                okall = False
                ctx.add("2.field-read-back", "FIELDCOV", False, f"{st}: the reverse direction reads {extra}, which the forward direction writes as a constant", sites=[st], site_key=f"{st}:extra:{','.join(extra)}")
        if okall:
            ctx.add("2.field-read-back", "FIELDCOV", True, "for every protobuf struct the reverse direction reads exactly the fields the forward direction fills from the block "
                    f"(minus {sum(map(len, DERIVED.values()))} recomputed header fields)", sites=sorted(filled)[:12], site_key="all")
        # missing optional sub-messages are errors, not defaults
        uod = [c for u in rv for x in u.bodies for c in x.calls if c.bb in x.live and c.name == "unwrap_or_default" and "Policies" not in str(c.self_ty) + " ".join(c.targs)]
        ctx.expect_sites("2.no-default-on-missing", uod, at_most=0, what="unwrap_or_default() on a missing sub-message in the reverse conversions, other than the optional policies (a missing field must be an error)")

    with ctx.clause("3.variant-agreement"):
        FT = "fuel_tx::transaction::Transaction"
        table_fw = [("proto_tx_from_tx", "fuel_tx::transaction::Transaction"), ("proto_input_from_input", "fuel_tx::transaction::types::input::Input"),
                    ("proto_output_from_output", "fuel_tx::transaction::types::output::Output"), ("proto_upgrade_purpose", "fuel_tx::transaction::types::upgrade::UpgradePurpose"),
                    ("proto_receipt_from_receipt", "fuel_tx::receipt::Receipt"), ("proto_script_execution_result", "fuel_tx::receipt::script_result::ScriptExecutionResult")]
        for fn, enum in table_fw:
            u = F.unit(f"{B}::fuel_to_proto_conversions::{fn}")
            b = u.root
            ctx.dispatch_total(f"3.{fn}-total", b, _resolve_enum(ctx, b, enum))
            en = _resolve_enum(ctx, b, enum)
            arms = ctx.match_arms(b, en)
            mism = []
            for var, blocks in arms.items():
                built = set()
                for bb, j, s in b.stmts():
                    rvv = s.get("rv") or {}
                    if bb in blocks and s["k"] == "assign" and rvv.get("k") == "agg" and rvv.get("ak") == "adt" and (rvv.get("adt") or "").startswith("fuel_core_protobuf") and short(rvv["adt"]) == "Variant":
                        built.add(rvv.get("variant"))
                if built and built != {VARIANT_ALIAS.get(var, var)}:
                    mism.append(f"{var} -> {sorted(built)}")
                if not built and fn != "proto_script_execution_result":
                    mism.append(f"{var} -> nothing")
            ctx.add(f"3.{fn}-arm-builds-same-variant", "MIRROR", not mism and len(arms) >= 2, f"each arm of {fn} builds the protobuf variant of the same name" + (f"; mismatches: {mism}" if mism else ""),
                    sites=sorted(arms), site_key=fn)
        hb = F.unit(f"{B}::fuel_to_proto_conversions::proto_header_from_header").root
        BH = "fuel_core_types::blockchain::header::BlockHeader"
        ctx._hint = "fuel_core_types"
        if len(ctx.variants(BH)) >= 2:
            ctx.dispatch_total("3.header-total", hb, BH)
        else:
            ctx.add("3.header-total", "DISPATCH", True, "BlockHeader has a single variant in this configuration (irrefutable pattern)", sites=[hb.defq], site_key="hdr")
        table_rv = [("tx_from_proto_tx", f"{PB}::transaction::Variant"), ("input_from_proto_input", f"{PB}::input::Variant"), ("output_from_proto_output", f"{PB}::output::Variant"),
                    ("upgrade_purpose_from_proto", f"{PB}::upgrade_purpose::Variant"), ("receipt_from_proto", f"{PB}::receipt::Variant"),
                    ("script_execution_result_from_proto", f"{PB}::script_execution_result::Variant")]
        for fn, enum in table_rv:
            u = F.unit(f"{B}::proto_to_fuel_conversions::{fn}")
            b = u.root
            ctx.dispatch_total(f"3.{fn}-total", b, enum)
            arms = ctx.match_arms(b, enum)
            mism = []
            for var, blocks in arms.items():
                key = REV_ALIAS.get(var, var).lower()
                names = set()
                for c in b.calls:
                    if c.bb in blocks and (c.path.startswith("fuel_tx::") or c.path.startswith("fuel_core_types::")):
                        names.add(c.name.replace("_", "").lower())
                for bb, j, s in b.stmts():
                    rvv = s.get("rv") or {}
                    if bb in blocks and s["k"] == "assign" and rvv.get("k") == "agg" and rvv.get("ak") == "adt" and not (rvv.get("adt") or "").startswith(("core::", "fuel_core_protobuf", "alloc::")):
                        names.add(str(rvv.get("variant")).lower())
                        names.add(short(rvv.get("adt")).lower())
                if not any(key in nm or nm in key and len(nm) > 3 for nm in names):
                    mism.append(f"{var} -> {sorted(names)[:6]}")
            ctx.add(f"3.{fn}-arm-builds-same-variant", "MIRROR", not mism and len(arms) >= 2, f"each arm of {fn} builds the fuel variant of the same name" + (f"; mismatches: {mism}" if mism else ""),
                    sites=sorted(arms), site_key=fn)

    with ctx.clause("4.contiguous-heights"):
        us = F.find_units("<*StorageDB* as *BlocksStorage>::store_block", CR) or F.find_units("<* as *>::store_block", CR)
        us = [u for u in us if "storage_db" in u.root.file]
        ctx.expect_sites("4.store_block", [u.q for u in us], exactly=1, what="StorageDB::store_block")
        u = us[0]
        b = ctx.body_with(u, "fuel_core_storage::transactional::WriteTransaction::write_transaction")
        wt = ctx.one_call(b, "fuel_core_storage::transactional::WriteTransaction::write_transaction")
        ins = [c for c in b.calls if c.bb in b.live and c.name == "insert" and c.path.startswith("fuel_storage::")]
        ctx.expect_sites("4.inserts", ins, exactly=2, what="Blocks.insert + LatestBlock.insert")
        ne = ctx.rel_tests(b, "Ne")
        ctx.expect_sites("4.height-test", [f"bb{sw.bb}" for sw, _ in ne], exactly=1, what="`height != next_height`")
        ctx.test_leads_to_error("4.gap-rejects", b, ne, truth=True, detail="a height that is not the successor of the current one is refused")
        sc = ctx.one_call(b, "fuel_types::numeric_types::BlockHeight::succ")
        ctx.arg_origin("4.next-is-successor-of-current", sc, 0, "call:*::get_current_height", depth=3)
        cm = [c for c in b.calls if c.bb in b.live and c.name == "commit"]
        ctx.expect_sites("4.commit", cm, exactly=1, what="tx.commit()")
        for i, c in enumerate(sorted(ins, key=lambda c: c.bb)):
            ctx.after_ok(f"4.insert-{i}-ok-before-commit", c, cm, extra_transparent=("core::result::Result::map_err",))
        bad, _ = ctx.ok_edges(cm[0], polarity="bad", extra_transparent=("core::result::Result::map_err",))
        ctx.add("4.commit-error-propagates", "REJECT", bool(bad) and all(b.path([ctx._edge_target(b, e)], b.return_blocks(), cut_blocks=b.error_blocks()) is None for e in bad),
                "a failing commit is an error", sites=[cm[0].where()], site_key="cm")
        hk = sorted(ins, key=lambda c: c.bb)[0]
        ctx.arg_origin("4.stored-under-given-height", hk, 1, ctx.pspec(u, 2), depth=1)

    # -- 5. regenerated header fields: the outbox message ids are collected per transaction, skipping reverted ones --
    with ctx.clause("5.outbox-ids-per-transaction"):
        u = F.unit(f"{B}::proto_to_fuel_conversions::fuel_block_from_protobuf")
        b = u.root
        NEXT = "core::iter::traits::iterator::Iterator::next"
        bn = ctx.one_call(b, "fuel_core_types::blockchain::block::Block::new")
        anyc = ctx.one_call(b, "core::iter::traits::iterator::Iterator::any")
        o = Origins(b, 3)
        ctx.add("5.revert-test-on-this-transactions-receipts", "PROV", atom_match(o.atoms(anyc.args[0]), f"call:{NEXT}") and
                not atom_match(o.atoms(anyc.args[0]), "call:core::iter::traits::iterator::Iterator::flatten"),
                "the Revert/Panic test looks at the receipts of the transaction of the current iteration (not at all receipts of the block: "
                "one reverted transaction must not hide the message outs of the successful ones)", sites=[anyc.where()], site_key="any")
        ext = ctx.one_call(b, "core::iter::traits::collect::Extend::extend")
        loops = [c for c in b.calls_to(NEXT) if c.bb in b.live and b.path([c.target], [ext.bb]) is not None and b.path([ext.target], [c.bb]) is not None]
        ctx.expect_sites("5.per-transaction-loop", loops, exactly=1, what="loop over the per-transaction receipt lists")
        ctx.add("5.ids-from-this-transactions-receipts", "PROV", atom_match(o.atoms(ext.args[1]), f"call:{NEXT}"),
                "the message ids added come from the receipts of the transaction of the current iteration", sites=[ext.where()], site_key="ext")
        rv_t = ctx.value_tests(b, "call:core::iter::traits::iterator::Iterator::any", depth=0)
        ctx.guarded("5.ids-only-of-successful-transactions", b, [ext], rv_t, truth=False, detail="message outs of a reverted or panicked transaction are not part of the outbox")
        if loops:
            # the loop of one transaction is entered for every transaction: both calls sit inside the loop body
            ctx.add("5.test-inside-loop", "ORDER", b.path([loops[0].target], [anyc.bb]) is not None and b.path([anyc.target], [loops[0].bb]) is not None,
                    "the Revert/Panic test is evaluated once per transaction", sites=[anyc.where()], site_key="inloop")
        ctx.add("5.block-rebuilt-with-those-ids", "PROV", ctx.same_local(b, bn.args[2], ext.args[0]) or atom_match(Origins(b, 1).atoms(bn.args[2]), "call:alloc::vec::Vec::new"),
                "Block::new regenerates the outbox root / receipt count from the collected ids", sites=[bn.where()], site_key="ids")
        ctx.arg_origin("5.block-rebuilt-with-converted-transactions", bn, 1, "call:core::iter::traits::iterator::Iterator::collect", depth=3)
        ctx.arg_origin("5.block-rebuilt-with-converted-header", bn, 0, f"call:{B}::proto_to_fuel_conversions::partial_header_from_proto_header", depth=3)
        # the closures agree with the executor's notion: any(Revert | Panic), filter_map(message_id)
        cl = [x for x in u.bodies if x is not b]
        mid = [c for x in cl for c in x.calls if c.bb in x.live and c.name == "message_id"]
        ctx.expect_sites("5.message-id-extraction", mid, exactly=1, what="r.message_id() in the filter_map closure")
        RC = "fuel_tx::receipt::Receipt"
        tested = set()
        for x in cl:
            en = _resolve_enum(ctx, x, RC)
            for (bb, sw, d) in ctx.enum_switches(x, en):
                vs = ctx.variants(en)
                explicit = {int(v) for v, t in sw.term.get("arms", []) if t != sw.term.get("otherwise")}
                tested |= {vs[i] for i in explicit if i < len(vs)}
        ctx.add("5.reverted-means-revert-or-panic", "MIRROR", tested == {"Revert", "Panic"},
                f"the transaction counts as reverted iff it has a Revert or Panic receipt (variants singled out: {sorted(tested)})", sites=sorted(tested), site_key="rp")


def _resolve_enum(ctx, body, q):
    """the enum path as it appears in the facts (re-exports make several spellings possible)"""
    tail = q.split("::")[-1]
    cands = set()
    for i in body.live:
        for s in body.blocks[i].get("s", []):
            rvv = s.get("rv") or {}
            if rvv.get("k") == "discr" and rvv.get("adt", "").split("::")[-1] == tail and not rvv["adt"].startswith("fuel_core_protobuf"):
                cands.add(rvv["adt"])
    if len(cands) == 1:
        return cands.pop()
    return q

