"""shared names for the executor rules (C01-C06)"""
from core import Origins, atom_match

EX = "fuel_core_executor::executor::BlockExecutor"
CR = ["fuel_core_executor"]
EVENT = "fuel_core_types::services::executor::Event"
INPUT = "fuel_tx::transaction::types::input::Input"
OUTPUT = "fuel_tx::transaction::types::output::Output"
TAKE = "fuel_storage::StorageMut::take"
REPLACE = "fuel_storage::StorageMut::replace"
INSERT = "fuel_storage::StorageMut::insert"


def event_pushes(body, variant):
    """Vec::push calls whose pushed value is an executor Event::<variant> aggregate"""
    out = []
    for c in body.calls_to("alloc::vec::Vec::push"):
        if len(c.args) > 1 and atom_match(Origins(body, 1).atoms(c.args[1]), f"agg:{EVENT}::{variant}"):
            out.append(c)
    return out


def event_constructors(ctx, variant):
    """units of the executor crate that build Event::<variant>"""
    units = set()
    for b in ctx.F.crate("fuel_core_executor")["bodies"]:
        if EVENT not in b.adts_touched:
            continue
        for bb, j, s in b.stmts():
            if bb in b.live and s["k"] == "assign" and s["rv"]["k"] == "agg" and s["rv"].get("adt") == EVENT and s["rv"]["variant"] == variant:
                units.add(b.unit)
    return units


def table_calls(ctx, body, table, ops):
    return [c for c in ctx.table_ops(table, CR, ops=ops) if c.body is body]
