"""shared names for the executor rules (C01-C06)"""
from core import Origins, atom_match

EX = "fuel_core_executor::executor::BlockExecutor"
CR = ["fuel_core_executor"]
EVENT = "fuel_core_types::services::executor::Event"
INPUT = "fuel_tx::transaction::types::input::Input"
OUTPUT = "fuel_tx::transaction::types::output::Output"
TAKE = "fuel_storage::StorageMut::take"
REPLACE = "fuel_storage::StorageMut::replace"
INSERT = "fuel_storage::StorageMut::insert"


def event_pushes(body, variant):
    """Vec::push calls whose pushed value is an executor Event::<variant> aggregate"""
    out = []
    for c in body.calls_to("alloc::vec::Vec::push"):
        if len(c.args) > 1 and atom_match(Origins(body, 1).atoms(c.args[1]), f"agg:{EVENT}::{variant}"):
            out.append(c)
    return out


def event_constructors(ctx, variant):
    """units of the executor crate that build Event::<variant>"""
    units = set()
    for b in ctx.F.crate("fuel_core_executor")["bodies"]:
        if EVENT not in b.adts_touched:
            continue
        for bb, j, s in b.stmts():
            if bb in b.live and s["k"] == "assign" and s["rv"]["k"] == "agg" and s["rv"].get("adt") == EVENT and s["rv"]["variant"] == variant:
                units.add(b.unit)
    return units


def table_calls(ctx, body, table, ops):
    return [c for c in ctx.table_ops(table, CR, ops=ops) if c.body is body]

def no_rejection_after_events(ctx, n):
    """shared by C01 (production and validation report the same events) and C04 (a skipped transaction leaves nothing)"""
    F = ctx.F
    # -- 6. no transaction-level rejection after the first event of the transaction has been recorded --
    with ctx.clause(f"{n}.no-rejection-after-events"):
        EXQ = "fuel_core_executor::executor::BlockExecutor"
        b = ctx.body_with(f"{EXQ}::execute_chargeable_transaction", f"{EXQ}::spend_input_utxos")
        sp = ctx.one_call(b, f"{EXQ}::spend_input_utxos")
        after = b.reach([sp.target]) if sp.target is not None else set()
        # events / statuses are appended to the block-wide ExecutionData, which is NOT rolled back when the producer skips
        # the transaction: after spend_input_utxos only storage failures (fatal for producer and validator alike) may occur
        rej = [(bb, s) for bb, j, s in b.stmts() if bb in after and bb in b.live and s["k"] == "assign" and s["rv"]["k"] == "agg" and
               (s["rv"].get("adt") or "").endswith("::ExecutorError")]
        ctx.expect_sites(f"{n}.no-executor-error-after-first-event", [f"{s['rv'].get('variant')} at line {s.get('line')}" for _, s in rej], exactly=0,
                         what="ExecutorError constructed in execute_chargeable_transaction after spend_input_utxos (a skip at that point leaves the events of the skipped transaction in the producer's result, "
                              "which validation of the same block does not report)")
        # every error exit after that point is the `?` of one of the storage steps
        allowed = ("spend_input_utxos", "persist_output_utxos", "insert", "update_execution_data")
        o6 = Origins(b, 0)
        odd = []
        for c in b.calls:
            if c.bb in after and c.bb in b.live and c.name == "from_residual":
                srcs = {str(v).split("::")[-1] for k, v in o6.atoms(c.args[0]) if k == "call"} - {"branch", "from_residual"}
                if not srcs or not srcs <= set(allowed):
                    odd.append(f"`?` at {c.where()} propagates {sorted(srcs)}")
        errb = [bb for bb, j, s in b.stmts() if bb in after and bb in b.live and s["k"] == "assign" and s["rv"]["k"] == "agg" and s["rv"].get("adt") == "core::result::Result" and s["rv"].get("variant") == "Err"]
        odd += [f"Err(..) built in bb{bb}" for bb in errb]
        ctx.expect_sites(f"{n}.only-storage-failures-after-first-event", odd, exactly=0,
                         what="error exit after spend_input_utxos that is not the `?` of persist_output_utxos / ProcessedTransactions.insert / update_execution_data")
        _totals_updated_last(ctx, n, b, sp)
        dup = ctx.one_call(ctx.body_with(f"{EXQ}::execute_transaction", f"{EXQ}::check_tx_is_not_duplicate"), f"{EXQ}::check_tx_is_not_duplicate")
        ctx.add(f"{n}.duplicate-check-before-any-effect", "ORDER", all(dup.body.path([c.target], [dup.bb]) is None for c in dup.body.calls if c.bb in dup.body.live and c.name.startswith("execute_") and c.target is not None),
                "the duplicate-id rejection happens before the transaction is executed", sites=[dup.where()], site_key="dup")

def _totals_updated_last(ctx, n, b, sp):
    EXQ = "fuel_core_executor::executor::BlockExecutor"
    # the block-wide totals (coinbase, used gas / size, statuses) are updated last: only once every fallible step succeeded
    upd = ctx.one_call(b, f"{EXQ}::update_execution_data")
    pers = ctx.one_call(b, f"{EXQ}::persist_output_utxos")
    ctx.after_ok(f"{n}.totals-updated-after-inputs-spent", sp, [upd], detail="fee / gas / size of a transaction are added to the block totals only after its inputs were spent successfully "
                 "(a transaction skipped in between would leave its fee in the mint amount)")
    ctx.after_ok(f"{n}.totals-updated-after-outputs-stored", pers, [upd])
    later = [c for c in b.calls if c.bb in b.live and upd.target is not None and c.bb in b.reach([upd.target]) and c.name in ("spend_input_utxos", "persist_output_utxos", "insert", "replace", "attempt_tx_execution_with_vm")]
    ctx.expect_sites(f"{n}.nothing-fallible-after-totals", later, exactly=0, what="fallible execution step after update_execution_data")


def totals_updated_last(ctx, n):
    """C03: the mint amount is the sum of the fees of the *included* transactions"""
    EXQ = "fuel_core_executor::executor::BlockExecutor"
    with ctx.clause(f"{n}.totals-updated-last"):
        b = ctx.body_with(f"{EXQ}::execute_chargeable_transaction", f"{EXQ}::spend_input_utxos")
        sp = ctx.one_call(b, f"{EXQ}::spend_input_utxos")
        _totals_updated_last(ctx, n, b, sp)
