"""C39 — snapshot export followed by regenesis reproduces the chain state (DESIGN §7 C39): table agreement."""
from core import AnchorMissing, Origins, atom_match

LEVEL = "other"
EXPLANATION = """
Writer/reader agreement for C39, extracted from the resolved generic arguments of the calls:
(1) E = tables handed to Exporter::spawn_task::<T, Db> in write_full_snapshot, I_on = tables of
SnapshotImporter::spawn_worker_on_chain::<T>, I_off = (snapshot table, written table) pairs of
spawn_worker_off_chain in run_workers. Every table the property names (Coins, Messages, BlobData,
ContractsRawCode, ContractsLatestUtxo, ContractsState, ContractsAssets, ProcessedTransactions,
FuelBlockMerkleData, FuelBlockMerkleMetadata) is exported from the on-chain database and imported by an
on-chain worker; every exported table is consumed by some import worker. (2) each on-chain handler
Handler<T,T>::process writes table T (a storage write on T is reachable from it within fuel_core) and
consumes the group it is given (the group parameter is what is iterated / handed to the initializer);
no handler swallows a write error (every `?`/try_for_each result reaches the return). (3) exporter
task: the entries come from db.entries::<T>(prefix, Forward) of the same T, are chunked by the
configured group size and each chunk is given to writer.write; the chain height/latest block written
by finalize() comes from the on-chain latest block and its header merkle root; LastBlockConfig::from_header
fills every field from the header's own accessor (height, DA height, consensus-parameters version, state
transition bytecode version) and the blocks root from its parameter, with no two fields sharing a source.
(4) JSON encoding:
for every named table the writer side (impl AddTable<T> for StateConfigBuilder) stores the entries and
the reader side (impl AsTable<T> for StateConfig) produces entries from the config (sibling impl lists
agree); the parquet path is generic in T. (5, 6: extra build configuration `parquet` = fuel-core-chain-config with the
feature the node binary enables) positional contract of every Iterator::nth override on the snapshot read path: counted
per acyclic path (`next` on self or a field = 1, inner `nth(n)` = n + 1, `self.index += n` = n), no path consumes more
than n + 1 groups and some path skips by n (a resumed import calls `.skip(k)`, i.e. `nth`); loop-based or otherwise
uncounted idioms are accepted, not proved. Decoder::next advances its cursor by the constant 1 and reads the row group
at the cursor. Codec agreement: PostcardParquetEncoder::write encodes entries with postcard::to_stdvec and returns the
encoder's result, GroupIter::next decodes with postcard::from_bytes; Encoder::write opens exactly one row group per
call, writes the given elements and closes column and group after the batch is written.
"""
NOT_DECIDED = """Value equality after import (codec round trips), group-size arithmetic, the parquet crate's own
file format, under-consumption by a positional override (fewer than n + 1 items), loop-based positional overrides."""

G = "fuel_core::service::genesis"
REQUIRED = ["Coins", "Messages", "BlobData", "ContractsRawCode", "ContractsLatestUtxo", "ContractsState", "ContractsAssets",
            "ProcessedTransactions", "FuelBlockMerkleData", "FuelBlockMerkleMetadata"]
CC = "fuel_core_chain_config::config::state"


def _tables_of(c):
    """table type(s) a storage write call is instantiated with (the trait's Type parameter)"""
    out = set()
    for a in c.targs:
        if a.startswith("&") or a.startswith("{") or "<" in a and not a.split("<")[0].endswith(("Merkle", "Table")):
            if "<" in a:
                continue
        out.add(a.split("<")[0].split("::")[-1])
    return out


def short(t):
    return t.split("::")[-1]


def check(ctx):
    F = ctx.F
    with ctx.clause("1.table-sets"):
        eu = F.unit(f"{G}::exporter::Exporter::write_full_snapshot")
        E_on, E_off = [], []
        for b in eu.bodies:
            for c in b.calls_to(f"{G}::exporter::Exporter::spawn_task"):
                if c.bb not in b.live:
                    continue
                t, db = c.targs[2], c.targs[3]
                (E_on if db.endswith("::OnChain") else E_off).append(short(t))
        ctx.expect_sites("1.exported-on-chain", E_on, at_least=10, what="on-chain tables exported by write_full_snapshot")
        ctx.expect_sites("1.exported-off-chain", E_off, at_least=1, what="off-chain tables exported by write_full_snapshot")
        iu = F.unit(f"{G}::importer::SnapshotImporter::run_workers")
        I_on, I_off = [], []
        for b in iu.bodies:
            for c in b.calls:
                if c.bb not in b.live:
                    continue
                if c.is_path(f"{G}::importer::SnapshotImporter::spawn_worker_on_chain"):
                    I_on.append(short(c.targs[-1]))
                elif c.is_path(f"{G}::importer::SnapshotImporter::spawn_worker_off_chain"):
                    I_off.append((short(c.targs[-2]), short(c.targs[-1])))
        ctx.expect_sites("1.imported-on-chain", I_on, at_least=10, what="on-chain import workers")
        ctx.expect_sites("1.imported-off-chain", [f"{a}->{b}" for a, b in I_off], at_least=1, what="off-chain import workers")
        for t in REQUIRED:
            ctx.add(f"1.exported-{t}", "TABLESET", t in E_on, f"{t} is exported from the on-chain database", sites=E_on, site_key=f"E:{t}")
            ctx.add(f"1.imported-{t}", "TABLESET", t in I_on, f"{t} is imported by an on-chain worker", sites=I_on, site_key=f"I:{t}")
        srcs = set(I_on) | {a for a, _ in I_off}
        lost = sorted((set(E_on) | set(E_off)) - srcs)
        ctx.add("1.every-exported-table-consumed", "TABLESET", not lost, "every exported table is read by some import worker" + (f"; not consumed: {lost}" if lost else ""),
                sites=sorted(srcs), site_key="consumed")
        dup = sorted({t for t in I_on if I_on.count(t) > 1})
        ctx.add("1.one-on-chain-worker-per-table", "TABLESET", not dup, "no table is imported by two on-chain workers" + (f"; duplicated: {dup}" if dup else ""), sites=I_on, site_key="dup")

    with ctx.clause("2.on-chain-handlers"):
        us = F.find_units(f"<* as {G}::importer::import_task::ImportTable>::process", "fuel_core")
        ctx.expect_sites("2.handlers", [u.root.impl_self for u in us], at_least=20, what="ImportTable handlers")
        from rules import TABLE_WRITE_FNS
        for t in REQUIRED:
            hs = [u for u in us if u.root.impl_self and u.root.impl_self.count(f"::{t},") + u.root.impl_self.count(f"::{t}>") == 2
                  and short(u.root.impl_self.split("<", 1)[1].split(",")[0]) == t]
            if len(hs) != 1:
                ctx.add(f"2.handler-{t}", "ANCHOR", False, f"expected exactly one Handler<{t},{t}>::process, found {len(hs)}", site_key=f"h:{t}")
                continue
            u = hs[0]
            v, cs = ctx.reach_calls([u], ["fuel_core"], max_depth=4)
            wr = [c for c, ch in cs if c.path in TABLE_WRITE_FNS and c.targs and t in _tables_of(c)]
            ctx.add(f"2.{t}-handler-writes-own-table", "TABLEW", len(wr) >= 1, f"Handler<{t},{t}>::process reaches a storage write on {t}",
                    sites=[f"{c.body.defq} {TABLE_WRITE_FNS[c.path]} {c.where()}" for c in wr[:4]], site_key=f"w:{t}")
            other = sorted({x for c, ch in cs if c.path in TABLE_WRITE_FNS and c.targs for x in _tables_of(c)} - {t})
            # writes on companion tables are fine only for merkleized companions; a *different named* table would be a cross-wire
            cross = [o for o in other if o in REQUIRED]
            ctx.add(f"2.{t}-handler-writes-no-other-named-table", "TABLEW", not cross, f"Handler<{t},{t}> does not write another snapshot table" + (f": {cross}" if cross else ""),
                    sites=other, site_key=f"x:{t}")
            b = u.root
            o = Origins(b, 1)
            # the group parameter (param index 2: self, group, tx) is consumed by an iteration or initializer call
            used = [c for x in u.bodies for c in x.calls if c.bb in x.live and c.args and any(atom_match(Origins(x, 0).atoms(a), "param:2") for a in c.args)
                    and x is b]
            ctx.add(f"2.{t}-group-consumed", "PROV", len(used) >= 1, f"the group given to Handler<{t},{t}>::process is what it iterates / hands on",
                    sites=[c.where() for c in used[:3]], site_key=f"g:{t}")
            # error discipline: results of try_for_each / update_* / `?` are not dropped: every fallible call result reaches return or a `?`
            drops = []
            for x in u.bodies:
                for c in x.calls:
                    if c.bb not in x.live or c.dest is None:
                        continue
                    if c.name in ("try_for_each", "update_contract_states", "update_contract_balances", "insert", "replace") or c.name.startswith("init_"):
                        if not ctx._flows_to_exit(x, c):
                            drops.append(c)
            ctx.add(f"2.{t}-errors-not-dropped", "ERRFLOW", not drops, f"no fallible step of Handler<{t},{t}>::process has its result discarded",
                    sites=[c.where() for c in drops], site_key=f"e:{t}")

    with ctx.clause("3.exporter-task"):
        su = F.unit(f"{G}::exporter::Exporter::spawn_task")
        cl = [x for x in su.bodies if any(c.name == "entries" for c in x.calls)]
        ctx.expect_sites("3.export-closure", [x.defq for x in cl], exactly=1, what="blocking export closure")
        x = cl[0]
        en = [c for c in x.calls if c.bb in x.live and c.name == "entries"]
        ctx.expect_sites("3.entries-call", en, exactly=1, what="db.entries::<T>(prefix, Forward)")
        ctx.add("3.entries-of-exported-table", "PROV", en[0].targs and en[0].targs[-1] == "T" or any(t == "T" for t in en[0].targs), "the iterated table is the task's table parameter T",
                sites=[en[0].where()], site_key="T", witness={"targs": en[0].targs})
        ch = [c for c in x.calls if c.bb in x.live and c.name == "chunks"]
        ctx.expect_sites("3.chunks", ch, exactly=1, what=".chunks(group_size)")
        ctx.arg_origin("3.chunk-size-is-group-size", ch[0], 1, "upvar:group_size", depth=0)
        ctx.arg_origin("3.chunks-of-entries", ch[0], 0, "call:*::entries", depth=0)
        wr = [c for y in su.bodies for c in y.calls if c.bb in y.live and c.is_path("fuel_core_chain_config::config::state::writer::SnapshotWriter::write")]
        ctx.expect_sites("3.write-per-chunk", wr, exactly=1, what="writer.write(chunk)")
        pc = [c for c in x.calls if c.bb in x.live and c.name == "partial_close"]
        ctx.expect_sites("3.fragment-closed", pc, exactly=1, what="writer.partial_close()")
        tfe = [c for c in x.calls if c.bb in x.live and c.name == "try_for_each"]
        ctx.expect_sites("3.try_for_each", tfe, exactly=1, what="try_for_each over the chunks")
        ctx.after_ok("3.close-after-all-chunks", tfe[0], pc)
        # parent: group_size captured from the exporter's configured size
        pb = su.root
        gs = [s for bb, j, s in pb.stmts() if bb in pb.live and s["k"] == "assign" and s["rv"]["k"] == "use" and (s["rv"]["op"].get("p") or [None])[-1] == ".group_size"]
        ctx.expect_sites("3.group-size-from-config", [str(s.get("line")) for s in gs], at_least=1, what="let group_size = self.group_size")
        fu = F.unit(f"{G}::exporter::Exporter::finalize")
        fb = ctx.body_with(fu, "fuel_core_chain_config::config::state::LastBlockConfig::from_header")
        fh = ctx.one_call(fb, "fuel_core_chain_config::config::state::LastBlockConfig::from_header")
        ctx.arg_origin("3.last-block-is-latest-on-chain-block", fh, 0, "call:*::latest_block", depth=2)
        ctx.arg_origin("3.blocks-root-from-merkle-root", fh, 1, "call:*::block_header_merkle_root", depth=1)
        fz = [c for c in fb.calls if c.bb in fb.live and c.name == "finalize" and "SnapshotFragment" in (c.path + str(c.self_ty))]
        ctx.expect_sites("3.finalize-call", fz, exactly=1, what="fragment.finalize(Some(latest_block), ..)")
        if fz:
            ctx.arg_origin("3.latest-block-written", fz[0], 1, "call:fuel_core_chain_config::config::state::LastBlockConfig::from_header", depth=1)

    with ctx.clause("4.json-encoding"):
        add = {short(u.root.impl_trait.split("<", 1)[1].rstrip(">")): u for u in F.find_units(f"<{CC}::StateConfigBuilder as {CC}::AddTable>::add", "fuel_core_chain_config")}
        ast = {short(u.root.impl_trait.split("<", 1)[1].rstrip(">")): u for u in F.find_units(f"<{CC}::StateConfig as {CC}::AsTable>::as_table", "fuel_core_chain_config")}
        ctx.add("4.sibling-impl-lists-agree", "SIBLING", set(add) == set(ast) and len(add) >= 10, f"AddTable impls {sorted(add)} == AsTable impls {sorted(ast)}",
                sites=sorted(set(add) ^ set(ast)), site_key="sets")
        for t in REQUIRED:
            if t not in add or t not in ast:
                ctx.add(f"4.json-{t}-present", "SIBLING", False, f"no AddTable/AsTable impl for {t}", site_key=f"p:{t}")
                continue
            ab = add[t].root
            ext = [c for c in ab.calls if c.bb in ab.live and c.name in ("extend", "push", "append", "extend_from_slice")]
            keeps = any(atom_match(Origins(ab, 0).atoms(c.args[1]), "param:2") and atom_match(Origins(ab, 0).atoms(c.args[0]), f"field:{CC}::StateConfigBuilder.*") for c in ext if len(c.args) > 1)
            ctx.add(f"4.json-writer-keeps-{t}", "JSONLOSS", keeps, f"the JSON writer (AddTable<{t}>::add) stores the entries it is given" +
                    ("" if keeps else f": it discards them, so a JSON snapshot carries no {t} rows and regenesis from it cannot reproduce that table"),
                    sites=[f"{ab.file}:{ab.line}"], site_key=t)
            rb = ast[t]
            reads = any(atom_match(Origins(x, 1).atoms({"k": "copy", "l": 0}), f"field:{CC}::StateConfig.*") or
                        any(s["k"] == "assign" and s["rv"]["k"] in ("ref", "use") and any(a == CC + "::StateConfig" for a in (s["rv"].get("pl") or s["rv"].get("op") or {}).get("fa", []))
                            for bb, j, s in x.stmts()) for x in rb.bodies)
            ctx.add(f"4.json-reader-yields-{t}", "JSONLOSS", reads, f"the JSON reader (AsTable<{t}>::as_table) produces the entries from the config" +
                    ("" if reads else f": it always returns an empty table"), sites=[f"{rb.root.file}:{rb.root.line}"], site_key="r:" + t)

    # -- 3b. the chain tip recorded in the snapshot is the exported header's own ----------
    with ctx.clause("3.last-block-fields"):
        LB = "fuel_core_chain_config::config::state::LastBlockConfig"
        BH = "fuel_core_types::blockchain::header::BlockHeader"
        hb = F.unit(f"{LB}::from_header").root
        ag = [s for bb, j, s in hb.stmts() if bb in hb.live and s["k"] == "assign" and s["rv"]["k"] == "agg" and s["rv"].get("adt") == LB]
        ctx.expect_sites("3.last-block-built", [str(s.get("line")) for s in ag], exactly=1, what="LastBlockConfig { .. } in LastBlockConfig::from_header")
        want = {"block_height": f"call:{BH}::height", "da_block_height": f"call:{BH}::da_height",
                "consensus_parameters_version": f"call:{BH}::consensus_parameters_version",
                "state_transition_version": f"call:{BH}::state_transition_bytecode_version",
                "blocks_root": "param:2"}
        if ag:
            o3 = Origins(hb, 1)
            fl = ag[0]["rv"]["fields"]
            ctx.add("3.last-block-all-fields-known", "FIELDCOV", set(fl) == set(want), f"LastBlockConfig fields {sorted(fl)} each have a stated source", sites=[str(ag[0].get("line"))], site_key="cov")
            for f, spec in want.items():
                at = o3.atoms(ag[0]["rv"]["ops"][fl.index(f)]) if f in fl else set()
                others = [w for g, w in want.items() if g != f]
                ctx.add(f"3.last-block-{f}", "PROV", atom_match(at, spec) and not any(atom_match(at, w) for w in others),
                        f"LastBlockConfig.{f} is the exported header's {spec.split('::')[-1]} and no other component (regenesis builds its genesis block and picks its executor version from these)",
                        sites=[str(ag[0].get("line"))], site_key=f, witness={"atoms": sorted(map(str, at))[:8]})


# ---------------------------------------------------------------------------------------------------
# configuration `parquet` (fuel-core-chain-config built with its parquet feature, as the node binary does)
# ---------------------------------------------------------------------------------------------------
IT = "core::iter::traits::iterator::Iterator"
PQ = CC + "::parquet"
CONSUMING = {"next": (0, 1)}
UNDECIDED_ITER = ("advance_by", "skip", "last", "count", "for_each", "fold", "try_fold", "nth_back", "next_back", "by_ref", "take")


def _from_self(o, op):
    at = o.atoms(op)
    return atom_match(at, "param:1") or atom_match(at, "field:*")


def _nth_paths(b):
    """acyclic entry→return paths of a (small) body; None when the body has a cycle (loop idiom: not decided)"""
    rets = set(b.return_blocks())
    out, cyc = [], [False]

    def dfs(bb, path):
        if len(out) > 4000:
            return
        if bb in path:
            cyc[0] = True
            return
        path = path + [bb]
        if bb in rets:
            out.append(path)
            return
        for (s, _lab) in b.succs(bb):
            if s in b.live:
                dfs(s, path)
    dfs(0, [])
    return None if cyc[0] else out


def nth_consumption(ctx, u):
    """ITERPOS: an `Iterator::nth(n)` override may consume at most n + 1 items of the sequence `next` yields, and must
    skip by n on some path. Counted per acyclic path: `next` on self / a field = 1, an inner `nth(n)` = n + 1,
    `self.<index> = self.<index> + n` = n."""
    b = u.root
    name = f"{(b.impl_self or u.q).split('::')[-1].split('<')[0]}"
    o = Origins(b, 1)
    paths = _nth_paths(b)
    site = [f"{b.file}:{b.line}"]
    if paths is None:
        return ctx.add(f"5.{name}-nth-consumes-n+1", "ITERPOS", True, f"{name}::nth is loop-based: positional count not decided (accepted, not proved)", sites=site, site_key=name)
    calls = {c.bb: c for c in b.calls if c.bb in b.live}
    idx_adds = {}   # bb -> the call `x.saturating_add(n)` / checked_add / wrapping_add whose operands are a self field and n
    for bb, c in calls.items():
        if c.name in ("saturating_add", "checked_add", "wrapping_add", "add") and len(c.args) == 2:
            a0, a1 = o.atoms(c.args[0]), o.atoms(c.args[1])
            if (atom_match(a0, "field:*") and atom_match(a1, "param:2")) or (atom_match(a1, "field:*") and atom_match(a0, "param:2")):
                idx_adds[bb] = c
    for bb, j, s in b.stmts():   # `self.idx += n` / `self.idx + n` as a checked binary operation
        if bb in b.live and s["k"] == "assign" and s["rv"]["k"] in ("binop", "checked_binop") and s["rv"].get("op") in ("Add", "AddWithOverflow", "AddUnchecked"):
            a0, a1 = o.atoms(s["rv"]["a"]), o.atoms(s["rv"]["b"])
            if (atom_match(a0, "field:*") and atom_match(a1, "param:2")) or (atom_match(a1, "field:*") and atom_match(a0, "param:2")):
                idx_adds[bb] = s
    bad, skips, undecided = [], 0, []
    for p in paths:
        coef = const = 0
        for bb in p:
            if bb in idx_adds:
                coef += 1
            c = calls.get(bb)
            if c is None or not c.args or not _from_self(o, c.args[0]):
                continue
            is_iter = c.is_path(f"{IT}::*") or (c.path or "").startswith(IT + "::")
            if is_iter and c.name == "next":
                const += 1
            elif is_iter and c.name == "nth":
                if len(c.args) > 1 and atom_match(o.atoms(c.args[1]), "param:2") and not atom_match(o.atoms(c.args[1]), "call:*") and not atom_match(o.atoms(c.args[1]), "const:*"):
                    coef += 1; const += 1
                else:
                    undecided.append(c.where())
            elif is_iter and c.name in UNDECIDED_ITER:
                undecided.append(c.where())
        if coef >= 1:
            skips += 1
        if coef > 1 or const > 1:
            bad.append({"consumes": f"{coef}*n + {const}", "path": b.describe_path(p)})
    if undecided:
        return ctx.add(f"5.{name}-nth-consumes-n+1", "ITERPOS", True, f"{name}::nth uses an idiom whose count is not decided ({sorted(set(undecided))[:3]}): accepted, not proved", sites=site, site_key=name)
    ctx.add(f"5.{name}-nth-consumes-n+1", "ITERPOS", not bad,
            f"{name}::nth(n) consumes at most n + 1 groups on each of its {len(paths)} paths" + (f"; a path consumes {bad[0]['consumes']}: a resumed import (`.skip(k)` calls `nth`) loses a group" if bad else ""),
            sites=site, site_key=name, witness=bad[0] if bad else None)
    ctx.add(f"5.{name}-nth-skips-by-n", "ITERPOS", skips >= 1, f"{name}::nth(n) advances by n on some path ({skips} of {len(paths)})", sites=site, site_key=name + ":skip")


def check_parquet(ctx):
    F = ctx.F
    with ctx.clause("5.parquet-positional"):
        us = [u for u in F.find_units(f"<* as {IT}>::nth", "fuel_core_chain_config")]
        ctx.expect_sites("5.nth-overrides", [u.q for u in us], at_least=1, what="Iterator::nth overrides on the snapshot read path (today: parquet Decoder)")
        for u in us:
            nth_consumption(ctx, u)
        # the decoder's own cursor: one row group per `next`
        dn = F.unit(f"<{PQ}::decode::Decoder as {IT}>::next").root
        on = Origins(dn, 1)
        cg = ctx.one_call(dn, f"{PQ}::decode::Decoder::current_group")
        adds = [c for c in dn.calls if c.bb in dn.live and c.name in ("saturating_add", "checked_add", "wrapping_add") and atom_match(on.atoms(c.args[0]), f"field:{PQ}::decode::Decoder.group_index")]
        ctx.expect_sites("5.decoder-cursor-step", adds, exactly=1, what="group_index advanced once in Decoder::next")
        if adds:
            ctx.const_arg("5.decoder-cursor-step-is-one", adds[0], 1, 1)
        gb = F.unit(f"{PQ}::decode::Decoder::current_group").root
        gr = ctx.one_call(gb, "*::get_row_group")
        ctx.arg_origin("5.decoder-reads-group-at-cursor", gr, 1, f"field:{PQ}::decode::Decoder.group_index", depth=1)
    with ctx.clause("6.parquet-codec"):
        # writer and reader use the same entry codec, one row group per written group
        wu = F.unit(f"{CC}::writer::PostcardParquetEncoder::write")
        wv, wc = ctx.reach_calls([wu], ["fuel_core_chain_config"], max_depth=2)
        enc = [c for c, _ch in wc if c.is_path("postcard::to_stdvec", "postcard::ser::to_stdvec")]
        ctx.expect_sites("6.writer-encodes-with-postcard", [c.where() for c in enc], at_least=1, what="postcard::to_stdvec per entry in PostcardParquetEncoder::write")
        ew = ctx.one_call(wu.root, f"{PQ}::encode::Encoder::write")
        ctx.flows("6.encoder-result-returned", ew, to_return=True)
        gu = [u for u in F.find_units(f"<{CC}::reader::GroupIter as {IT}>::next", "fuel_core_chain_config")]
        ctx.expect_sites("6.group-reader", [u.q for u in gu], exactly=1, what="Iterator::next of GroupIter")
        rv, rc = ctx.reach_calls(gu, ["fuel_core_chain_config"], max_depth=2)
        dec = [c for c, _ch in rc if c.is_path("postcard::from_bytes", "postcard::de::from_bytes")]
        ctx.expect_sites("6.reader-decodes-with-postcard", [c.where() for c in dec], at_least=1, what="postcard::from_bytes per entry in GroupIter::next")
        eb = F.unit(f"{PQ}::encode::Encoder::write").root
        ng = [c for c in eb.calls if c.bb in eb.live and c.name == "next_row_group"]
        ctx.expect_sites("6.one-row-group-per-write", ng, exactly=1, what="next_row_group in Encoder::write")
        wb = ctx.one_call(eb, "*::write_batch")
        ctx.arg_origin("6.batch-is-the-given-elements", wb, 1, "param:2", depth=2)
        closes = [c for c in eb.calls if c.bb in eb.live and c.name == "close"]
        ctx.expect_sites("6.column-and-group-closed", closes, at_least=2, what="column.close() and group.close()")
        ctx.after_ok("6.closed-after-batch-written", wb, closes)


EXTRA_CONFIGS = {"parquet": check_parquet}
