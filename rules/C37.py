"""C37 — coins-to-spend answers are sound (DESIGN §7 C37): guards of the selection loops."""
from core import AnchorMissing, Origins, atom_match

LEVEL = "other"
EXPLANATION = """
Guard structure of fuel_core::coins_query, for all paths: (1) select_coins_until (the loop behind
big_coins / dust_coins of the indexed algorithm): a coin is pushed only on the edge where is_excluded
is false AND coins.len() >= max is false AND the stop predicate is false; a storage error of the
stream leaves through the error exit; the pushed value is the stream item itself; is_excluded matches
CoinsToSpendIndexKey without wildcard and asks contains_coin / contains_message with the key's own id;
(2) select_coins_to_spend: the InsufficientCoins / MaxCoinsReached exits are reachable only on the
edge `selected_total == 0 || (selected_total < total && !allow_partial)`; the dust budget given to
dust_coins comes from max_dust_count(max, number_of_big_coins, ..) and max_dust_count clamps with
min(.., max.saturating_sub(big_coins_len)); exclude is passed on to both selections; (3) largest_first
(non-indexed algorithm): the push is guarded by `coins.len() >= max` false, the MaxCoinsReached exit by
that test true and !allow_partial, InsufficientCoins by `collected < target` and not (partial with a
non-zero amount); random_improve truncates the candidate list to max before selecting and falls back
to largest_first; (4) AssetsQuery: coins_iter / messages_iter drop ids contained in the exclude set
before the lookup, read only the ids owned by self.owner, keep only allowed assets and non-retryable
messages. (5) skip_big_coins_up_to_amount: the budget starts at the selected dust total, the coin amount is subtracted from it and the reduced budget is written back inside the predicate.
"""
NOT_DECIDED = """Totals, duplicates and optimality (values of amounts); that the index iterator only yields unspent coins of the
owner/asset (depends on the index contents, C36); randomness of max_dust_count / shuffle."""

CQ = "fuel_core::coins_query"
KEY = "fuel_core::graphql_api::storage::coins::CoinsToSpendIndexKey"
AQ = "fuel_core::query::balance::asset_query"
ERR = f"{CQ}::CoinsQueryError"


def variant_aggs(b, variant):
    return [(bb, s) for bb, j, s in b.stmts() if bb in b.live and s["k"] == "assign" and s["rv"]["k"] == "agg" and s["rv"].get("variant") == variant
            and (s["rv"].get("adt") or "").endswith("CoinsQueryError")]


def check(ctx):
    F = ctx.F
    with ctx.clause("1.select_coins_until"):
        u = F.unit(f"{CQ}::select_coins_until")
        b = ctx.body_with(u, "alloc::vec::Vec::push")
        push = ctx.one_call(b, "alloc::vec::Vec::push")
        exc = ctx.call_tests(b, f"{CQ}::is_excluded")
        ctx.guarded("1.push-only-if-not-excluded", b, [push], exc, truth=False, detail="an excluded resource is never selected")
        ge = ctx.cmp_tests(b, "Ge", lhs="call:alloc::vec::Vec::len", rhs=ctx.pspec(u, 2), depth=1)
        ctx.guarded("1.push-only-below-max", b, [push], ge, truth=False, detail="at most `max` coins are selected")
        pr = ctx.call_tests(b, ["core::ops::function::Fn::call"])
        ctx.guarded("1.push-only-before-stop-predicate", b, [push], pr, truth=False, detail="selection stops when the predicate holds")
        nxt = ctx.one_call(b, "futures_util::stream::stream::StreamExt::next")
        ctx.arg_origin("1.pushed-coin-is-stream-item", push, 1, "call:futures_util::stream::stream::StreamExt::next", depth=1)
        ie = ctx.one_call(b, f"{CQ}::is_excluded")
        ctx.arg_origin("1.exclusion-test-on-that-coin", ie, 0, "call:futures_util::stream::stream::StreamExt::next", depth=1)
        ctx.arg_origin("1.exclusion-test-with-query-exclude", ie, 1, ctx.pspec(u, 3), depth=0)
        tb = [c for c in b.calls_to("core::ops::try_trait::Try::branch") if c.bb in b.live]
        ctx.expect_sites("1.stream-error-propagates", tb, exactly=1, what="`coin?` on the stream item")
        ctx.dominated("1.error-checked-before-use", b, [push, ie], by_blocks=tb)
        # Vec::len under test is the result vector
        ctx.add("1.count-is-of-result-vector", "PROV", all(ctx.same_local(b, c.args[0], push.args[0]) for c in b.calls_to("alloc::vec::Vec::len")) and bool(b.calls_to("alloc::vec::Vec::len")), "len() and push() act on the same `coins` vector", sites=[push.where()], site_key="vec")
        xb = F.unit(f"{CQ}::is_excluded").root
        ctx.dispatch_total("1.is_excluded-dispatch", xb, KEY)
        arms = ctx.match_arms(xb, KEY)
        for var, fn, fld in (("Coin", "contains_coin", "utxo_id"), ("Message", "contains_message", "nonce")):
            cs = [c for c in xb.calls if c.bb in arms.get(var, ()) and c.name.startswith("contains_")]
            ok = len(cs) == 1 and cs[0].name == fn
            ctx.add(f"1.is_excluded-{var}", "MIRROR", ok, f"{var} keys are looked up with Exclude::{fn}", sites=[c.where() for c in cs], site_key=var)
            if ok:
                at = Origins(xb, 1).atoms(cs[0].args[1])
                ctx.add(f"1.is_excluded-{var}-own-id", "PROV", atom_match(at, f"field:{fld}") or atom_match(at, f"field:{KEY}.{fld}"),
                        f"the id tested is the key's own {fld}", sites=[cs[0].where()], site_key=var + ":id", witness={"atoms": sorted(map(str, at))[:20]})
        for fn, want in (("contains_coin", "Utxo"), ("contains_message", "Message")):
            eb = F.unit(f"{AQ}::Exclude::{fn}").root
            ag = [s for bb, j, s in eb.stmts() if s["k"] == "assign" and s["rv"]["k"] == "agg" and s["rv"].get("variant") in ("Utxo", "Message")]
            ctx.add(f"1.{fn}-kind", "MIRROR", len(ag) == 1 and ag[0]["rv"]["variant"] == want, f"Exclude::{fn} looks up CoinId::{want}", sites=[str(s.get("line")) for s in ag], site_key=fn)

    with ctx.clause("2.select_coins_to_spend"):
        u = F.unit(f"{CQ}::select_coins_to_spend")
        b = ctx.body_with(u, f"{CQ}::max_dust_count")
        ins = variant_aggs(b, "InsufficientCoins")
        mx = variant_aggs(b, "MaxCoinsReached")
        ctx.expect_sites("2.insufficient-exit", [str(s.get("line")) for _, s in ins], exactly=1, what="InsufficientCoins error")
        ctx.expect_sites("2.max-reached-exit", [str(s.get("line")) for _, s in mx], exactly=1, what="MaxCoinsReached error")
        eq0 = [(sw, pol) for sw, pol in ctx.rel_tests(b, "Eq") if _cmp_with_const(b, sw, 0)]
        lt = ctx.rel_tests(b, "Lt")
        ap = ctx.value_tests(b, "field:fuel_core::query::balance::asset_query::AssetSpendTarget.allow_partial", depth=0)
        ctx.expect_sites("2.tests", [f"bb{sw.bb}" for sw, _ in eq0 + lt + ap], at_least=3, what="`total == 0`, `selected < total`, `allow_partial` tests")
        # error exits only on (selected == 0) true, or (selected < total) true and allow_partial false
        cut_edges = []
        for sw, pol in [t for t in eq0 if _after(b, t[0], f"{CQ}::big_coins")]:
            for lab in sw.edges_for_truth(True if pol else False):
                cut_edges.append((sw.bb, lab))
        for sw, pol in ap:
            for lab in sw.edges_for_truth(False if pol else True):
                cut_edges.append((sw.bb, lab))
        tgt = [bb for bb, _ in ins + mx]
        ok = bool(tgt) and bool(cut_edges) and b.path([0], tgt, cut_edges=cut_edges) is None
        ctx.add("2.errors-only-when-nothing-admissible", "GUARD", ok,
                "InsufficientCoins / MaxCoinsReached are reachable only via `selected_total == 0` or `!allow_partial` (after `selected_total < total`)",
                sites=[f"bb{t}" for t in tgt], site_key="errs")
        ctx.guarded("2.insufficient-only-under-shortfall-or-zero", b, [bb for bb, _ in ins], [t for t in eq0 if _after(b, t[0], f"{CQ}::big_coins")] + lt, truth=True,
                    detail="the error needs `selected == 0` or `selected < total`")
        bc = ctx.one_call(b, f"{CQ}::big_coins")
        dc = ctx.one_call(b, f"{CQ}::dust_coins")
        md = ctx.one_call(b, f"{CQ}::max_dust_count")
        ctx.arg_origin("2.big-coins-max", bc, 2, "field:fuel_core::query::balance::asset_query::AssetSpendTarget.max", depth=0)
        ctx.arg_origin("2.big-coins-exclude", bc, 3, ctx.pspec(u, 3), depth=0)
        ctx.arg_origin("2.dust-coins-exclude", dc, 3, ctx.pspec(u, 3), depth=0)
        ctx.arg_origin("2.dust-budget-from-max_dust_count", dc, 2, f"call:{CQ}::max_dust_count", depth=0)
        ctx.arg_origin("2.dust-budget-of-max", md, 0, "field:fuel_core::query::balance::asset_query::AssetSpendTarget.max", depth=0)
        ctx.arg_origin("2.dust-budget-minus-big-coins", md, 1, "call:alloc::vec::Vec::len", depth=3)
        ctx.arg_origin("2.dust-stops-at-last-big-coin", dc, 1, "call:[T]::last", depth=2)
        mb = F.unit(f"{CQ}::max_dust_count").root
        gr = ctx.one_call(mb, "rand::Rng::gen_range", "rand::rng::Rng::gen_range")
        mn = ctx.one_call(mb, "core::cmp::Ord::min")
        ss = ctx.one_call(mb, "u16::saturating_sub", "core::num::<impl u16>::saturating_sub")
        ctx.arg_origin("2.max_dust_count-upper-bound-clamped", gr, 1, "call:core::cmp::Ord::min", depth=1)
        o = Origins(mb, 0)
        ctx.add("2.max_dust_count-clamp-is-max-minus-big", "CLAMP", atom_match(o.atoms(mn.args[0]) | o.atoms(mn.args[1]), "call:u16::saturating_sub") and
                atom_match(o.atoms(ss.args[0]), "param:1") and atom_match(o.atoms(ss.args[1]), "param:2"),
                "upper bound = min(factor bound, max.saturating_sub(big_coins_len))", sites=[mn.where()], site_key="clamp")
        for fn in ("big_coins", "dust_coins"):
            fu = F.unit(f"{CQ}::{fn}")
            fb = ctx.body_with(fu, f"{CQ}::select_coins_until")
            c = ctx.one_call(fb, f"{CQ}::select_coins_until")
            ctx.arg_origin(f"2.{fn}-passes-max", c, 1, ctx.pspec(fu, 3), depth=0)
            ctx.arg_origin(f"2.{fn}-passes-exclude", c, 2, ctx.pspec(fu, 4), depth=0)

    with ctx.clause("3.non-indexed"):
        u = F.unit(f"{CQ}::largest_first")
        b = ctx.body_with(u, "alloc::vec::Vec::push")
        push = ctx.one_call(b, "alloc::vec::Vec::push")
        ge = ctx.cmp_tests(b, "Ge", lhs="call:alloc::vec::Vec::len", rhs="field:fuel_core::query::balance::asset_query::AssetSpendTarget.max", depth=1)
        ctx.guarded("3.push-only-below-max", b, [push], ge, truth=False, detail="largest_first never selects more than max coins")
        mx = variant_aggs(b, "MaxCoinsReached")
        ins = variant_aggs(b, "InsufficientCoins")
        ctx.expect_sites("3.max-reached-exit", [str(s.get("line")) for _, s in mx], exactly=1, what="MaxCoinsReached error")
        ctx.expect_sites("3.insufficient-exit", [str(s.get("line")) for _, s in ins], exactly=1, what="InsufficientCoins error")
        ctx.guarded("3.max-reached-only-at-max", b, [bb for bb, _ in mx], ge, truth=True)
        ap = ctx.value_tests(b, "field:fuel_core::query::balance::asset_query::AssetSpendTarget.allow_partial", depth=0)
        ctx.guarded("3.max-reached-only-if-not-partial", b, [bb for bb, _ in mx], ap, truth=False)
        lt = ctx.cmp_tests(b, "Lt", lhs="call:u128::saturating_add", rhs="field:fuel_core::query::balance::asset_query::AssetSpendTarget.target", depth=1)
        ctx.guarded("3.insufficient-only-under-shortfall", b, [bb for bb, _ in ins], lt, truth=True)
        sk = [c for x in u.bodies for c in x.calls if c.bb in x.live and c.name in ("sort_by_key", "sort_by", "sort_unstable_by_key")]
        ctx.expect_sites("3.sorted-largest-first", sk, exactly=1, what="sort by Reverse(amount)")
        co = ctx.one_call(b, f"{AQ}::AssetQuery::coins")
        ctx.arg_origin("3.candidates-from-asset-query", co, 0, ctx.pspec(u, 1), depth=1)
        ru = F.unit(f"{CQ}::random_improve")
        rb = ctx.body_with(ru, "alloc::vec::Vec::truncate")
        tr = ctx.one_call(rb, "alloc::vec::Vec::truncate")
        ctx.arg_origin("3.random_improve-truncates-to-max", tr, 1, "field:fuel_core::query::balance::asset_query::AssetSpendTarget.max", depth=0)
        rp = ctx.one_call(rb, "alloc::vec::Vec::push", nth=0) if False else [c for c in rb.calls_to("alloc::vec::Vec::push") if c.bb in rb.live]
        ctx.expect_sites("3.random_improve-pushes", rp, exactly=2, what="coins.push / coins_per_asset.push")
        lf = ctx.one_call(rb, f"{CQ}::largest_first")
        ltt = ctx.cmp_tests(rb, "Lt", lhs="call:u128::saturating_add", rhs="field:fuel_core::query::balance::asset_query::AssetSpendTarget.target", depth=1)
        ctx.guarded("3.random_improve-fallback-on-shortfall", rb, [lf], ltt, truth=True)
        ctx.dominated("3.random_improve-truncate-before-selection", rb, [c for c in rp if atom_match(Origins(rb, 1).atoms(c.args[1]), "call:core::iter::traits::iterator::Iterator::next")], by_blocks=[tr])

    with ctx.clause("4.asset-query-filters"):
        A = f"{AQ}::AssetsQuery"
        for fn, ids, kind in (("coins_iter", "owned_coins_ids", "coin"), ("messages_iter", "owned_message_ids", "message")):
            u = F.unit(f"{A}::{fn}")
            b = u.root
            oc = [c for c in b.calls if c.bb in b.live and c.name == ids]
            ctx.expect_sites(f"4.{fn}-ids-source", oc, exactly=1, what=f"database.{ids}(owner, ..)")
            if oc:
                ctx.arg_origin(f"4.{fn}-owner", oc[0], 1, f"field:{A}.owner", depth=1)
            # an exclusion filter closure: tests `coin_ids.contains(id)` and yields its negation
            exf = []
            for x in u.bodies:
                for c in x.calls:
                    if c.bb in x.live and c.name == "contains" and "HashSet" in c.path or (c.bb in x.live and c.path.endswith("HashSet::contains")):
                        exf.append((x, c))
            ctx.expect_sites(f"4.{fn}-exclusion-filter", [c.where() for _, c in exf], exactly=1, what="exclude.coin_ids.contains(id) filter")
            for x, c in exf:
                nots = [s for bb, j, s in x.stmts() if bb in x.live and s["k"] == "assign" and s["rv"]["k"] == "un" and s["rv"].get("op") == "Not"]
                okn = any(atom_match(Origins(x, 0).atoms(s["rv"]["a"] if "a" in s["rv"] else s["rv"]["op_"]), "call:*HashSet*::contains") for s in nots) if nots else False
                ctx.add(f"4.{fn}-excluded-ids-dropped", "GUARD", okn, "the filter keeps an id only if it is NOT in the exclude set", sites=[c.where()], site_key=fn + ":neg",
                        witness={"nots": [str(s.get("line")) for s in nots]})
            flt = [c for c in b.calls if c.bb in b.live and c.name == "filter"]
            ctx.expect_sites(f"4.{fn}-filters", flt, exactly=2, what="stream filters (exclusion + asset / retryable)")
        cu = F.unit(f"{A}::coins_iter")
        aa = [c for x in cu.bodies for c in x.calls if c.bb in x.live and c.is_path(f"{AQ}::allowed_asset")]
        ctx.expect_sites("4.coins-asset-filter", aa, exactly=1, what="allowed_asset(&allowed_assets, &coin.asset_id)")
        mu = F.unit(f"{A}::messages_iter")
        nr = [c for x in mu.bodies for c in x.calls if c.bb in x.live and c.name == "is_non_retryable_message"]
        ctx.expect_sites("4.messages-only-non-retryable", nr, exactly=1, what="message.is_non_retryable_message() filter")
        nb = F.unit(f"{AQ}::AssetQuery::new").root
        insr = [c for c in nb.calls if c.bb in nb.live and c.name == "insert"]
        ctx.expect_sites("4.single-allowed-asset", insr, exactly=1, what="allowed.insert(&asset.id)")
        if insr:
            ctx.arg_origin("4.allowed-asset-is-requested-asset", insr[0], 1, "param:2", depth=1)
        an = ctx.one_call(nb, f"{A}::new")
        ctx.arg_origin("4.query-owner", an, 0, "param:1", depth=0)
        ctx.arg_origin("4.query-exclude", an, 2, "param:4", depth=0)

    # -- 5. replacing big coins by dust: a big coin is dropped only while the remaining dust value pays for it --
    with ctx.clause("5.dust-replaces-only-what-it-covers"):
        u = F.unit(f"{CQ}::skip_big_coins_up_to_amount")
        sk = [c for x in u.bodies for c in x.calls if c.bb in x.live and c.name == "skip_while"]
        ctx.expect_sites("5.skip_while", sk, exactly=1, what="skip_while over the selected big coins")
        # idiom-tolerant: the subtraction may be checked_sub / saturating_sub / wrapping_sub or a `-` after a comparison
        subs = [(x, c.where(), c.args[0], c.args[1]) for x in u.bodies for c in x.calls if c.bb in x.live and c.name in ("checked_sub", "saturating_sub", "wrapping_sub", "overflowing_sub")]
        subs += [(x, f"{x.file}:{s.get('line')}", s["rv"]["a"], s["rv"]["b"]) for x in u.bodies for bb, j, s in x.stmts()
                 if bb in x.live and s["k"] == "assign" and s["rv"]["k"] == "bin" and s["rv"].get("op") in ("Sub", "SubWithOverflow", "SubUnchecked")]
        ctx.expect_sites("5.budget-subtraction", [w for _, w, _, _ in subs], at_least=1, what="remaining dust value minus the coin amount")
        if subs:
            x, where, lhs, rhs = subs[0]
            a0 = ctx.resolved_atoms(u, x, lhs, 1)
            ctx.add("5.budget-starts-at-dust-total", "PROV", atom_match(a0, ctx.pspec(u, 2)),
                    "the budget compared with a big coin starts at the value of the selected dust", sites=[where], site_key="b0", witness={"atoms": sorted(map(str, a0))[:12]})
            ctx.add("5.budget-compared-with-coin-amount", "PROV", atom_match(Origins(x, 1).atoms(rhs), f"call:{KEY}::amount"), "what is subtracted is the big coin's amount", sites=[where], site_key="b1")
        # the budget is a captured mutable variable that is written back (it shrinks per dropped coin)
        wb = []
        for y in u.bodies:
            if y is u.root:
                continue
            for bb, j, s in y.stmts():
                if bb in y.live and s["k"] == "assign" and s["pl"]["l"] == 1 and "*" in (s["pl"].get("p") or []):
                    wb.append((y, s))
        ctx.add("5.budget-shrinks-per-dropped-coin", "PROV", bool(wb),
                "the predicate writes the reduced budget back into the captured variable: the dust pays for each dropped big coin once "
                "(with a constant budget every big coin not larger than the dust total is dropped and the selection can fall below the target)",
                sites=[f"{y.defq} line {s.get('line')}" for y, s in wb] or [c.where() for c in sk], site_key="wb")
        sb = ctx.body_with(f"{CQ}::select_coins_to_spend", f"{CQ}::skip_big_coins_up_to_amount")
        scall = ctx.one_call(sb, f"{CQ}::skip_big_coins_up_to_amount")
        ctx.arg_origin("5.budget-is-selected-dust-total", scall, 1, f"call:{CQ}::dust_coins", depth=3)
        ctx.arg_origin("5.applied-to-selected-big-coins", scall, 0, f"call:{CQ}::big_coins", depth=3)


def _cmp_with_const(b, sw, value):
    """does the switch test a comparison one of whose operands is the integer constant `value`?"""
    from core import decode_bool_test
    o = Origins(b, 0)
    for t in decode_bool_test(b, o, b.blocks[sw.bb]["t"]["d"]):
        if t[0] == "cmp":
            for op in (t[2], t[3]):
                if isinstance(op, dict) and op.get("k") == "const" and str(op.get("v")) in (str(value), f"{value}_u128"):
                    return True
                for d in o.direct_def(op) if isinstance(op, dict) and "l" in op else []:
                    if d[0] == "const" and str(d[1].get("v")) == str(value):
                        return True
    return False


def _after(b, sw, callee):
    cs = b.calls_to(callee)
    return bool(cs) and all(b.path([c.target], [sw.bb]) is not None for c in cs if c.target is not None)
