"""C09 — database commits are height-linked and the reported height is exact (DESIGN §7 C09)."""
from core import AnchorMissing, Origins, atom_match

LEVEL = "other"
EXPLANATION = """
Structural necessary conditions of C09 on fuel_core::database, for all paths: (1) every
`impl Modifiable for Database<..regular stage..>` commits only through
commit_changes_with_height_update; genesis-stage impls pass a constant None height; (2) the raw
backend commit (TransactableStorage::commit_changes) and rollback_block_to are called only from
the reviewed set (one reviewed exception: the genesis chain-config override); (3) in
commit_changes_with_height_update the backend commit is dominated by the `len > 1` reject, by
the linkage test (prev Some & new Some => next_expected == new, prev Some & new None => error),
and receives the discovered new height; (4) the cached height is written only in
commit_changes_with_height_update / rollback_last_block, after the backend call's ok-edge, with
the committed height; (5) the metadata write is guarded by a new height being present and its
changes are appended to the same single backend commit; (6) the heights_lookup closure of every regular-stage
impl collects all keys / entries of its height table: no selecting adaptor (take, skip, filter, last, max, ...)
stands between the iteration and the collected list, so a batch mixing several heights reaches the `len > 1` reject.
"""
NOT_DECIDED = """Correctness of each heights_lookup closure's table choice; numeric equality of
heights; behaviour of the backends themselves (C11/C12)."""

DB = "fuel_core::database"
GDB = "fuel_core::state::generic_database::GenericDatabase"
TS_COMMIT = "fuel_core::state::TransactableStorage::commit_changes"
CWHU = f"{DB}::commit_changes_with_height_update"
CR = ["fuel_core"]
HEIGHT_FIELD = "field:fuel_core::database::RegularStage.height"
OPT = "core::option::Option"


def check(ctx):
    F = ctx.F
    # ---- 1. sibling Modifiable impls ----------------------------------------------------------
    with ctx.clause("1.modifiable-impls"):
        us = F.units(f"<{GDB} as fuel_core_storage::transactional::Modifiable>::commit_changes", crate="fuel_core")
        regular = [u for u in us if "RegularStage" in (u.root.impl_self or "")]
        genesis = [u for u in us if "GenesisStage" in (u.root.impl_self or "")]
        other = [u for u in us if u not in regular and u not in genesis]
        ctx.expect_sites("1.regular-impl-count", [u.root.impl_self for u in regular], at_least=6,
                         what="impl Modifiable for Database<regular stage>",
                         detail="OnChain, OffChain, GasPrice, BlockAggregator, Relayer, Compression")
        ctx.expect_sites("1.genesis-impl-count", [u.root.impl_self for u in genesis], at_least=3, what="impl Modifiable for GenesisDatabase")
        ctx.expect_sites("1.unclassified-impls", [u.root.impl_self for u in other], exactly=0,
                         what="impl Modifiable for GenericDatabase with an unknown stage")
        for u in regular:
            b = u.root
            tag = (b.impl_self or "").split("database_description::")[-1].split(",")[0].split(">")[0]
            inner = b.calls_to(CWHU)
            ctx.must_pass(f"1.{tag}-uses-height-update", b, inner, exits="all",
                          detail=f"Modifiable for Database<{tag}> commits through commit_changes_with_height_update on every path")
            raw = [c for bb in u.bodies for c in bb.calls_to(TS_COMMIT, "*::rollback_block_to")]
            ctx.expect_sites(f"1.{tag}-no-raw-commit", raw, exactly=0, what="raw backend commit in a regular-stage Modifiable impl")
        for u in genesis:
            b = u.root
            tag = (b.impl_self or "").split("database_description::")[-1].split(",")[0].split(">")[0]
            raw = b.calls_to(TS_COMMIT)
            ctx.expect_sites(f"1.genesis-{tag}-commit", raw, exactly=1, what="backend commit in genesis Modifiable impl")
            for c in raw:
                at = Origins(b, 0).atoms(c.args[1])
                ctx.add(f"1.genesis-{tag}-height-none", "CONST", ("agg", f"{OPT}::None") in at and not any(a[0] in ("param", "call") for a in at),
                        "genesis-stage commits carry no height (constant None)", sites=[c.where()], site_key=b.defq + ":" + tag)

    # ---- 2. who may commit raw / roll back -----------------------------------------------------
    with ctx.clause("2.callers"):
        ctx.only_callers("2.raw-commit-callers", TS_COMMIT,
                         [CWHU, f"<{GDB} as fuel_core_storage::transactional::Modifiable>::commit_changes",
                          # reviewed exception (DESIGN §7 C09.2): rewrites the genesis consensus at the
                          # existing genesis height, neither advances nor reads the cached height
                          "fuel_core::service::FuelService::override_chain_config_if_needed"],
                         CR, must=[CWHU], detail="raw backend commits bypass the height linkage")
        ctx.only_callers("2.rollback_block_to-callers", "fuel_core::state::TransactableStorage::rollback_block_to",
                         [f"{GDB}::rollback_last_block"], CR, must=[f"{GDB}::rollback_last_block"])

    # ---- 3. linkage checks dominate the backend commit -------------------------------------------
    with ctx.clause("3.height-linkage"):
        b = ctx.body_with(CWHU, TS_COMMIT)
        commits = b.calls_to(TS_COMMIT)
        ctx.expect_sites("3.single-backend-commit", commits, exactly=1, what="backend commit in commit_changes_with_height_update")
        commit = commits[0]
        many = ctx.cmp_tests(b, "Gt", lhs="call:alloc::vec::Vec::len", rhs="const:1")
        ctx.guarded("3.not-two-heights", b, [commit], many, truth=False, detail="a commit may not carry data for two heights")
        ctx.test_leads_to_error("3.two-heights-rejects", b, many, truth=True)
        ctx.arg_origin("3.len-of-lookup", ctx.one_call(b, "alloc::vec::Vec::len"), 0, "call:core::ops::function::Fn::call",
                       detail="the number of heights is that of the heights_lookup result")
        prev_sw = ctx.discr_switches(b, OPT, "call:lock_api::mutex::Mutex::lock")
        new_sw = ctx.discr_switches(b, OPT, "call:core::iter::traits::double_ended::DoubleEndedIterator::next_back")
        ctx.expect_sites("3.prev-height-match", [f"bb{s.bb}" for s in prev_sw], at_least=1, what="match on the cached previous height")
        some_t = [ctx._edge_target(b, (s.bb, lab)) for s in prev_sw for lab in s.edge_for_value(1)]
        none_t = [ctx._edge_target(b, (s.bb, lab)) for s in prev_sw for lab in s.edge_for_value(0)]
        under_some = b.reach(some_t)
        under_none = b.reach(none_t)
        linked = [s for s in new_sw if s.bb in under_some and s.bb not in under_none]
        ctx.expect_sites("3.linked-arm-match", [f"bb{s.bb}" for s in linked], at_least=1,
                         what="match on the new height under prev=Some")
        ne = ctx.cmp_tests(b, "Ne", lhs="call:fuel_core::database::database_description::DatabaseHeight::advance_height",
                           rhs="call:core::iter::traits::double_ended::DoubleEndedIterator::next_back")
        ctx.test_leads_to_error("3.unlinked-rejects", b, ne, truth=True, detail="next_expected_height != new_height is rejected")
        errs = b.error_blocks()
        ne_false = []
        for sw, pol in ne:
            for lab in sw.edges_for_truth(False if pol else True):
                ne_false.append((sw.bb, lab))
        for s in linked:
            t_none = [ctx._edge_target(b, (s.bb, lab)) for lab in s.edge_for_value(0)]
            p = b.path(t_none, b.return_blocks(), cut_blocks=errs)
            ctx.add("3.some-none-rejects", "REJECT", p is None,
                    "(prev = Some, new = None): after the first height every commit must carry a height",
                    sites=[f"{b.file}:{s.term.get('line')}"], site_key=b.defq,
                    witness=None if p is None else {"path": b.describe_path(p)})
            t_some = [ctx._edge_target(b, (s.bb, lab)) for lab in s.edge_for_value(1)]
            p = b.path(t_some, [commit.bb], cut_edges=set(ne_false)) if ne_false else [0]
            ctx.add("3.some-some-linked", "GUARD", p is None,
                    "(prev = Some, new = Some): the backend commit is reached only past next_expected == new",
                    sites=[f"{b.file}:{s.term.get('line')}"], site_key=b.defq,
                    witness=None if p is None else {"path": b.describe_path(p)})
        adv = ctx.one_call(b, "fuel_core::database::database_description::DatabaseHeight::advance_height")
        ctx.arg_origin("3.advance-prev", adv, 0, "call:lock_api::mutex::Mutex::lock", detail="next expected height = advance(cached height)")
        edges, _ = ctx.ok_edges(adv, polarity="bad")
        ctx.add("3.advance-overflow-rejects", "REJECT", bool(edges) and all(
            b.path([ctx._edge_target(b, e)], b.return_blocks(), cut_blocks=errs) is None for e in edges),
            "advance_height() == None is an error exit", sites=[adv.where()], site_key=b.defq)
        ctx.arg_origin("3.commit-height-is-new-height", commit, 1,
                       "call:core::iter::traits::double_ended::DoubleEndedIterator::next_back",
                       detail="the height handed to the backend is the discovered new height")
        ctx.arg_origin("3.prev-height-from-cache", ctx.one_call(b, "lock_api::mutex::Mutex::lock", nth=0), 0, HEIGHT_FIELD)

    # ---- 4. cached height ------------------------------------------------------------------------
    with ctx.clause("4.cached-height"):
        writers = set()
        for body in F.crate("fuel_core")["bodies"]:
            if "fuel_core::database::RegularStage" not in body.adts_touched:
                continue
            ws = ctx.deref_writes(body, HEIGHT_FIELD, depth=2)
            if ws:
                writers.add(body.unit)
        allowed = {CWHU, f"{GDB}::rollback_last_block"}
        for w in sorted(writers - allowed):
            ctx.add("4.height-writers", "WMW", False, f"cached height (RegularStage.height) written in {w}, outside the allowed writer set",
                    site_key=w)
        ctx.add("4.height-writers", "WMW", writers >= allowed and not (writers - allowed),
                "cached height is written only in commit_changes_with_height_update and rollback_last_block",
                sites=sorted(writers), site_key="all")
        # constructors: the field is initialised in aggregates only by the reviewed constructors
        b = ctx.body_with(CWHU, TS_COMMIT)
        commit = ctx.one_call(b, TS_COMMIT)
        ws = ctx.deref_writes(b, HEIGHT_FIELD, depth=2)
        ctx.expect_sites("4.single-height-write", [f"{b.file}:{s.get('line')}" for _, s in ws], exactly=1, what="cached-height write in commit_changes_with_height_update")
        ctx.after_ok("4.height-after-commit-ok", commit, [bb for bb, _ in ws],
                     detail="the reported height moves only after the backend commit succeeded")
        o = Origins(b, 1)
        for bb, s in ws:
            at = o.atoms(s["rv"]["op"]) if s["rv"]["k"] == "use" else set()
            ctx.add("4.height-value", "PROV", ("agg", f"{OPT}::Some") in at and
                    atom_match(at, "call:core::iter::traits::double_ended::DoubleEndedIterator::next_back"),
                    "the cached height becomes Some(new_height)", sites=[f"{b.file}:{s.get('line')}"], site_key=b.defq)
        # the lock guarding the write is taken before the backend commit (commit + height update atomic
        # w.r.t. readers of the height)
        locks = b.calls_to("lock_api::mutex::Mutex::lock")
        guard_locks = [c for c in locks if any(c.bb in b.reach([c2.bb]) for c2 in []) or True]
        dom = [c for c in locks if b.path([0], [commit.bb], cut_blocks=[c.bb]) is None]
        ctx.add("4.lock-before-commit", "DOM", any(
            atom_match(Origins(b, 1).atoms(c.args[0]), HEIGHT_FIELD) and any(
                atom_match(_guard_atoms(ctx, b, bbw, s), f"call:lock_api::mutex::Mutex::lock") for bbw, s in ws) for c in dom),
            "the height mutex is locked before the backend commit and the write goes through a guard",
            sites=[c.where() for c in dom], site_key=b.defq)
        # rollback
        rb = ctx.body_with(f"{GDB}::rollback_last_block", "fuel_core::state::TransactableStorage::rollback_block_to")
        rcall = ctx.one_call(rb, "fuel_core::state::TransactableStorage::rollback_block_to")
        rws = ctx.deref_writes(rb, HEIGHT_FIELD, depth=2)
        ctx.expect_sites("4.rollback-height-write", [f"{rb.file}:{s.get('line')}" for _, s in rws], exactly=1, what="cached-height write in rollback_last_block")
        ctx.after_ok("4.rollback-height-after-ok", rcall, [bb for bb, _ in rws], detail="a failed rollback does not move the reported height")
        for bb, s in rws:
            at = Origins(rb, 1).atoms(s["rv"]["op"]) if s["rv"]["k"] == "use" else set()
            ctx.add("4.rollback-height-value", "PROV", atom_match(at, "call:fuel_core::database::database_description::DatabaseHeight::rollback_height"),
                    "after a rollback the cached height is height.rollback_height()", sites=[f"{rb.file}:{s.get('line')}"], site_key=rb.defq)
        ctx.arg_origin("4.rollback-target-is-cached-height", rcall, 1, "call:lock_api::mutex::Mutex::lock")

    # ---- 5. persisted height ----------------------------------------------------------------------
    with ctx.clause("5.metadata"):
        b = ctx.body_with(CWHU, TS_COMMIT)
        commit = ctx.one_call(b, TS_COMMIT)
        ins = [c for c in ctx.table_ops("MetadataTable", CR, ops=("insert",)) if c.body is b]
        ctx.expect_sites("5.metadata-insert", ins, exactly=1, what="MetadataTable insert in commit_changes_with_height_update")
        new_sw = ctx.discr_switches(b, OPT, "call:core::iter::traits::double_ended::DoubleEndedIterator::next_back")
        some_edges = [(s.bb, lab) for s in new_sw for lab in s.edge_for_value(1)]
        ctx.dominated("5.metadata-only-with-height", b, ins, by_edges=some_edges,
                      detail="metadata is rewritten only when the commit carries a height")
        for c in ins:
            ctx.arg_origin("5.metadata-from-new-height", c, 2, "call:fuel_core::database::update_metadata", depth=1)
        um = ctx.one_call(b, "fuel_core::database::update_metadata")
        ctx.arg_origin("5.update_metadata-height", um, 1, "call:core::iter::traits::double_ended::DoubleEndedIterator::next_back")
        # the metadata changes travel in the same backend commit (atomic)
        ctx.arg_origin("5.metadata-in-same-commit", commit, 2, "call:fuel_core_storage::structured_storage::StructuredStorage::into_changes", depth=1)
        ctx.arg_origin("5.original-changes-in-commit", commit, 2, "param:2", depth=1)
        # on the path with a height, the commit's changes pass the metadata insert
        ins_b = [c.bb for c in ins]
        guard_sws = [s for s in new_sw
                     if b.path([0], ins_b, cut_edges={(s.bb, lab) for lab in s.edge_for_value(1)}) is None]
        starts = [ctx._edge_target(b, (s.bb, lab)) for s in guard_sws for lab in s.edge_for_value(1)]
        p = b.path(starts, [commit.bb], cut_blocks=[c.bb for c in ins]) if starts else [0]
        ctx.add("5.height-commit-writes-metadata", "MPT", p is None,
                "every commit that carries a height also persists that height in the metadata table",
                sites=[c.where() for c in ins], site_key=b.defq, witness=None if p is None else {"path": b.describe_path(p)})
        # reopen: Database::new reads the cached height from the persisted metadata
        nb = ctx.body_with(ctx.unit(f"{GDB}::new", impl_self="RegularStage"), "*latest_height_from_metadata*")
        ctx.expect_sites("5.reopen-reads-metadata", nb.calls_to("*latest_height_from_metadata*"), at_least=1,
                         what="Database::new initialises the cached height from metadata")

    # ---- 6. the height collectors report every height found in the changes ------------------------
    with ctx.clause("6.height-collectors-complete"):
        DENY = {"take", "skip", "filter", "filter_map", "take_while", "skip_while", "step_by", "last", "next", "next_back", "nth", "nth_back",
                "max", "min", "max_by", "min_by", "max_by_key", "min_by_key", "find", "find_map", "first", "truncate", "pop", "split_off",
                "drain", "retain", "position"}
        us = [u for u in F.units(f"<{GDB} as fuel_core_storage::transactional::Modifiable>::commit_changes", crate="fuel_core")
              if "RegularStage" in (u.root.impl_self or "")]
        ctx.expect_sites("6.regular-impls", [u.root.impl_self for u in us], at_least=5, what="impl Modifiable for Database<regular stage>")
        for u in us:
            tag = (u.root.impl_self or "").split("database_description::")[-1].split(",")[0].split(">")[0]
            cl = [b for b in u.bodies if b is not u.root]
            src = [c for b in cl for c in b.calls if c.bb in b.live and c.name in ("iter_all_keys", "iter_all", "iter_all_by_prefix", "iter_all_filtered")]
            cut = [c for b in cl for c in b.calls if c.bb in b.live and c.name in DENY]
            if not src:
                # a description without height-bearing table (relayer built without its feature): constant empty list
                ctx.add(f"6.{tag}-collector", "PROV", not cut, f"Database<{tag}>: heights_lookup iterates nothing and selects nothing", site_key=tag)
                continue
            ctx.add(f"6.{tag}-collector-keeps-every-height", "PROV", not cut and all(c.name in ("iter_all_keys", "iter_all") for c in src),
                    f"Database<{tag}>: heights_lookup collects all keys/entries of its height table; no selecting adaptor between the iteration and the collected list"
                    + (f" — found {[c.name + ' (' + c.where() + ')' for c in cut][:3]}: a batch mixing several heights would be reported as one and pass the `len > 1` reject" if cut else ""),
                    sites=[c.where() for c in src + cut], site_key=tag)


def _guard_atoms(ctx, b, bb, s):
    at = set()
    Origins(b, 1)._local(s["pl"]["l"], s["pl"], 1, at, set())
    return at
