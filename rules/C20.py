"""C20 — pool state reconciles with preconfirmations and canonical blocks (DESIGN §7 C20)."""
from core import AnchorMissing, Origins, atom_match

LEVEL = "other"
EXPLANATION = """
Structural necessary conditions of C20 in fuel_core_txpool (PoolWorker / Pool), for all paths:
(1) process_preconfirmed_transaction touches the pool, the tentative-preconfirmation table and the
pending pool only past the false edge of `preconf_height <= current_canonical_height` (statuses
carrying a height), and matches PreConfirmationStatus without wildcard; (2) process_block always
passes process_committed_transactions (fed with the block's tx ids) and new_executed_transaction,
visits the tentative heights `..= block height`, confirms a tentative spend exactly on the
`confirmed.contains(tx)` true edge and rolls back on the false edge, and current_canonical_height
is written only there as max(old, new); (3) rollback_preconfirmed_transaction always withdraws the
preconfirmed outputs (new_skipped_transaction) and unspends the preconfirmed inputs and evicts the
spenders of its coins and the users of its created contracts; process_committed_transactions marks
the inputs spent by id for every id and, when pooled, by inputs;
(4) process_preconfirmed_committed_transaction saves the spender keys (move_spender_to_tentative
when not pooled, record_tentative_spend when pooled) before they are drained by
spend_inputs_by_tx_id / spend_inputs. The late test looks at Some(height) for Success and Failure statuses (checked, not assumed); tentative preconfirmations are dropped only by remove(&h) for h in range(..=block height); (5) every return of ExtractedOutputs::new_executed_transaction has removed the transaction's coins_created and contract_created_by_tx entries, and new_skipped_transaction goes through it. (6) SpentInputs::unspend_preconfirmed removes the InputKey::Tx marker of the rolled-back transaction on every path.
"""
NOT_DECIDED = """Interleaving-dependent outcomes (worker thread vs. requests); values of heights."""

CR = ["fuel_core_txpool"]
POOL = "fuel_core_txpool::pool::Pool"
PW = "fuel_core_txpool::pool_worker::PoolWorker"
SP = "fuel_core_txpool::spent_inputs::SpentInputs"
EO = "fuel_core_txpool::extracted_outputs::ExtractedOutputs"
PCS = "fuel_core_types::services::transaction_status::PreConfirmationStatus"


def check(ctx):
    F = ctx.F
    with ctx.clause("1.late-preconfirmation-ignored"):
        b = ctx.body_with(f"{PW}::process_preconfirmed_transaction", f"{POOL}::process_preconfirmed_committed_transaction")
        late = ctx.cmp_tests(b, "Le", lhs="call:fuel_tx::tx_pointer::TxPointer::block_height", rhs=f"field:{PW}.current_canonical_height")
        effects = b.calls_to(f"{POOL}::process_preconfirmed_committed_transaction", "fuel_core_txpool::pending_pool::PendingPool::new_known_tx",
                             "alloc::collections::btree::map::BTreeMap::entry", f"{EO}::new_extracted_outputs", f"{EO}::*")
        ctx.expect_sites("1.effect-sites", effects, at_least=4, what="pool / tentative-table / pending-pool effects in process_preconfirmed_transaction")
        # statuses with a height: all effects except the SqueezedOut arm's are behind the false edge
        sq = b.calls_to(f"{PW}::remove_skipped_transaction")
        late_false = [(sw.bb, lab) for sw, pol in late for lab in sw.edges_for_truth(False if pol else True)]
        sws = sorted(ctx.enum_switches(b, PCS), key=lambda x: x[0])
        ctx.expect_sites("1.late-test", [f"bb{sw.bb}" for sw, _ in late], at_least=1, what="`preconf_height <= current_canonical_height` test")
        for v in ("Success", "Failure"):
            idx = ctx.variant_index(PCS, v)
            first_bb, first_sw, _ = sws[0]
            starts = [ctx._edge_target(b, (first_bb, lab)) for lab in first_sw.edge_for_value(idx)]
            # the later matches on the same status can only take the same variant
            other = set()
            for (bb2, sw2, _) in sws[1:]:
                for i2, v2 in enumerate(ctx.variants(PCS)):
                    if v2 != v:
                        for lab in sw2.edge_for_value(i2):
                            other.add((bb2, lab))
            # on this arm preconf_height is Some(..): its `if let Some(h)` cannot take the None edge
            for osw in ctx.discr_switches(b, "core::option::Option", "call:fuel_tx::tx_pointer::TxPointer::block_height"):
                if any(osw.bb == sw.bb for sw, _ in late):
                    continue
                if b.path([osw.bb], [sw.bb for sw, _ in late]) is not None:
                    for lab in osw.edge_for_value(0):
                        other.add((osw.bb, lab))
            # ... which holds only if the height match really yields Some(height) on this arm (checked, not assumed)
            osws = [osw.bb for osw in ctx.discr_switches(b, "core::option::Option", "call:fuel_tx::tx_pointer::TxPointer::block_height")]
            arm_blocks = b.reach(starts, cut_blocks=osws + [bb2 for (bb2, _, _) in sws[1:]])
            opts = [s_["rv"].get("variant") for bb_, j_, s_ in b.stmts() if bb_ in arm_blocks and bb_ in b.live and s_["k"] == "assign" and s_["rv"]["k"] == "agg"
                    and s_["rv"].get("adt") == "core::option::Option"]
            ctx.add(f"1.{v}-has-a-preconfirmation-height", "MIRROR", opts == ["Some"], f"the height looked at by the late test is Some(tx_pointer.block_height()) for a {v} status (found {opts})",
                    sites=[f"bb{first_bb}"], site_key=v + ":height")
            p = b.path(starts, [c.bb for c in effects], cut_edges=set(late_false) | other) if late_false else [0]
            ctx.add(f"1.{v}-effects-only-if-not-late", "GUARD", p is None,
                    f"a {v} preconfirmation for a height at or below the canonical tip never changes the pool",
                    sites=[f"bb{sw.bb}" for sw, _ in late], site_key=v, witness=None if p is None else {"path": b.describe_path(p)})
        ctx.dispatch_total("1.status-dispatch", b, PCS, min_switches=2)
        arms = ctx.match_arms(b, PCS)
        for v in ("Success", "Failure"):
            cs = [c for c in b.calls_to(f"{POOL}::process_preconfirmed_committed_transaction") if c.bb in arms.get(v, set())]
            ctx.expect_sites(f"1.{v}-marks-committed", cs, exactly=1, what=f"process_preconfirmed_committed_transaction on the {v} arm")
        ctx.add("1.squeezed-out-arm-removes", "DISPATCH", bool(sq) and all(c.bb in arms.get("SqueezedOut", set()) for c in sq),
                "a preconfirmed squeeze-out removes the transaction as skipped", sites=[c.where() for c in sq], site_key="sq")

    with ctx.clause("2.process_block"):
        b = ctx.body_with(f"{PW}::process_block", f"{POOL}::process_committed_transactions")
        pct = ctx.one_call(b, f"{POOL}::process_committed_transactions")
        ctx.must_pass("2.committed-processed", b, [pct], exits="all")
        ctx.arg_origin("2.committed-ids-from-block", pct, 1, "field:tx_status", depth=8)
        u = F.unit(f"{PW}::process_block")
        ex = u.calls_to(f"{EO}::new_executed_transaction")
        ctx.expect_sites("2.executed-outputs-settled", ex, exactly=1, what="new_executed_transaction per status")
        # entries of heights above the imported block must survive: the only removal idiom recognised is
        # `remove(&h)` for keys h taken from `range(..=block_height)`
        rm = [c for x in u.bodies for c in x.calls if c.bb in x.live and c.path.startswith("alloc::collections::btree::map::") and
              c.name in ("remove", "remove_entry", "pop_first", "pop_last", "retain", "split_off", "clear", "extract_if", "first_entry", "last_entry", "append") and
              atom_match(Origins(x, 1).atoms(c.args[0]), f"field:{PW}.tentative_preconfs")]
        unbounded = [c for c in rm if c.name != "remove"]
        ctx.add("2.future-heights-kept", "GUARD", bool(rm) and not unbounded,
                "tentative preconfirmations are dropped only by remove(&h) for h in range(..=block_height)" +
                (f"; {[c.name + ' at ' + c.where() for c in unbounded]} takes entries out of the table without that bound: a preconfirmation for a height above the imported block is lost "
                 "(its outputs stay usable and its inputs stay spent although no block settles it)" if unbounded else ""),
                sites=[c.where() for c in rm], site_key="rm")
        for i, c in enumerate(c for c in rm if c.name == "remove"):
            ctx.arg_origin(f"2.removed-height-{i}-from-stale-range", c, 1, "call:alloc::collections::btree::map::BTreeMap::range", depth=3)
        rng = ctx.one_call(b, "alloc::collections::btree::map::BTreeMap::range")
        ctx.arg_origin("2.stale-range-up-to-block-height", rng, 1, "call:fuel_core_types::blockchain::header::BlockHeader::height", depth=1)
        o = Origins(b, 0)
        for bb, j, s in b.stmts():
            if s["k"] == "assign" and s["rv"]["k"] == "agg" and s["rv"].get("adt", "").endswith("RangeToInclusive"):
                ctx.add("2.stale-range-inclusive", "PROV", True, "tentative heights `..= block_height` are reconciled", sites=[f"{b.file}:{s.get('line')}"], site_key="range")
                break
        else:
            ctx.add("2.stale-range-inclusive", "PROV", False, "RangeToInclusive (..=height) not found in process_block", site_key="range")
        conf = ctx.one_call(b, f"{SP}::confirm_tentative_spend")
        roll = ctx.one_call(b, f"{POOL}::rollback_preconfirmed_transaction")
        contains = ctx.call_tests(b, "std::collections::hash::set::HashSet::contains")
        ctx.guarded("2.confirm-only-if-included", b, [conf], contains, truth=True)
        ctx.guarded("2.rollback-only-if-absent", b, [roll], contains, truth=False,
                    detail="a preconfirmed tx absent from the canonical block is rolled back")
        inner = [c for c in b.calls_to("core::iter::traits::iterator::Iterator::next")
                 if atom_match(Origins(b, 2).atoms(c.args[0]), "call:alloc::collections::btree::map::BTreeMap::remove")]
        if inner:
            some, _ = ctx.ok_edges(inner[0])
            starts = [ctx._edge_target(b, e) for e in some]
            p = b.path(starts, [inner[0].bb], cut_blocks=[conf.bb, roll.bb])
            ctx.add("2.every-tentative-tx-settled", "MPT", p is None, "each tentative tx of a stale height is either confirmed or rolled back",
                    sites=[conf.where(), roll.where()], site_key=b.defq, witness=None if p is None else {"path": b.describe_path(p)})
        else:
            ctx.add("2.every-tentative-tx-settled", "MPT", False, "loop over tentative txs not found", site_key=b.defq)
        ctx.only_field_writers("2.canonical-height-writers", PW, "current_canonical_height", [f"{PW}::process_block", f"{PW}::new", f"{PW}::run", "fuel_core_txpool::pool_worker::PoolWorkerInterface::new"], CR, kinds=("write", "refmut"))
        ws = [s for (k, bd, bb, s) in ctx.field_touches(PW, "current_canonical_height", CR, kinds=("write",)) if bd is b]
        ctx.expect_sites("2.canonical-height-write", [s.get("line") for s in ws], exactly=1, what="write of current_canonical_height in process_block")
        for s in ws:
            at = Origins(b, 1).atoms(s["rv"]["op"]) if s["rv"]["k"] == "use" else (Origins(b, 1).atoms(s["call"].args[0]) | {("call", s["call"].path)} if "call" in s else set())
            ctx.add("2.canonical-height-is-max", "CLAMP", atom_match(at, "call:core::cmp::Ord::max"), "the canonical height never decreases (max)",
                    sites=[str(s.get("line"))], site_key=b.defq)

    with ctx.clause("3.rollback-and-commit"):
        b = ctx.body_with(f"{POOL}::rollback_preconfirmed_transaction", f"{SP}::unspend_preconfirmed")
        for name, callee in (("outputs-withdrawn", f"{EO}::new_skipped_transaction"), ("inputs-unspent", f"{SP}::unspend_preconfirmed"),
                             ("coin-spenders-looked-up", "fuel_core_txpool::collision_manager::CollisionManager::get_coins_spenders"),
                             ("created-contracts-captured", f"{EO}::contracts_created_by")):
            ctx.must_pass(f"3.rollback-{name}", b, b.calls_to(callee), exits="all")
        cc = ctx.one_call(b, f"{EO}::contracts_created_by")
        sk = ctx.one_call(b, f"{EO}::new_skipped_transaction")
        ctx.dominated("3.contracts-captured-before-clearing", b, [sk], by_blocks=[cc], detail="created contracts are read before the outputs are cleared")
        subs = b.calls_to("fuel_core_txpool::storage::Storage::remove_transaction_and_dependents_subtree")
        ctx.expect_sites("3.rollback-evictions", subs, exactly=2, what="eviction loops (coin dependents, contract users)")
        srcs = set()
        for c in subs:
            at = Origins(b, 2).atoms(c.args[1])
            if atom_match(at, "call:fuel_core_txpool::collision_manager::CollisionManager::get_coins_spenders"):
                srcs.add("coin-spenders")
            if atom_match(at, "call:fuel_core_txpool::collision_manager::CollisionManager::get_contract_users"):
                srcs.add("contract-users")
        ctx.add("3.rollback-eviction-sources", "PROV", srcs == {"coin-spenders", "contract-users"}, f"evicted: {sorted(srcs)}", sites=sorted(srcs), site_key=b.defq)
        pb = ctx.body_with(f"{POOL}::process_committed_transactions", f"{SP}::spend_inputs_by_tx_id")
        byid = pb.calls_to(f"{SP}::spend_inputs_by_tx_id")
        nxt = [c for c in pb.calls_to("core::iter::traits::iterator::Iterator::next") if atom_match(Origins(pb, 1).atoms(c.args[0]), "param:2")]
        ctx.expect_sites("3.committed-id-loop", nxt, exactly=1, what="loop over committed ids")
        some = [e for n in nxt for e in ctx.ok_edges(n)[0]]
        starts = [ctx._edge_target(pb, e) for e in some]
        ctx.add("3.every-committed-id-spent-by-id", "MPT", bool(starts) and bool(byid) and
                pb.path(starts, [n.bb for n in nxt] + pb.return_blocks(), cut_blocks=[c.bb for c in byid]) is None,
                "every committed id is marked spent by id", sites=[c.where() for c in byid], site_key=pb.defq)
        rm = ctx.one_call(pb, "fuel_core_txpool::storage::Storage::remove_transaction")
        ctx.paired("3.pooled-committed-spends-inputs", rm, pb.calls_to(f"{SP}::spend_inputs"), on="ok")
        ctx.paired("3.pooled-committed-settles-outputs", rm, pb.calls_to(f"{EO}::new_extracted_transaction"), on="ok")

    with ctx.clause("4.preconfirmed-committed"):
        b = ctx.body_with(f"{POOL}::process_preconfirmed_committed_transaction", f"{SP}::move_spender_to_tentative")
        mv = ctx.one_call(b, f"{SP}::move_spender_to_tentative")
        byid = ctx.one_call(b, f"{SP}::spend_inputs_by_tx_id")
        pooled = ctx.call_tests(b, "std::collections::hash::map::HashMap::contains_key", arg_spec=f"field:{POOL}.tx_id_to_storage_id")
        ctx.guarded("4.move-only-if-not-pooled", b, [mv], pooled, truth=False)
        after = b.reach([byid.target])
        ctx.add("4.move-before-drain", "ORDER", mv.bb not in after and byid.bb in b.reach([mv.bb]),
                "spender keys are preserved before spend_inputs_by_tx_id drains them", sites=[mv.where(), byid.where()], site_key=b.defq)
        # on the not-pooled edge the move is mandatory
        edges = [(sw.bb, lab) for sw, pol in pooled for lab in sw.edges_for_truth(False if pol else True)]
        starts = [ctx._edge_target(b, e) for e in edges]
        ctx.add("4.not-pooled-always-moves", "MPT", bool(starts) and b.path(starts, [byid.bb], cut_blocks=[mv.bb]) is None,
                "when the tx is not pooled its spender keys are always moved to the tentative table", sites=[mv.where()], site_key=b.defq + ":mv")
        rec = ctx.one_call(b, f"{SP}::record_tentative_spend")
        sp = ctx.one_call(b, f"{SP}::spend_inputs")
        ctx.dominated("4.record-before-spend", b, [sp], by_blocks=[rec], detail="the tentative record is saved before the inputs are spent permanently")
        rm = ctx.one_call(b, "fuel_core_txpool::storage::Storage::remove_transaction")
        ctx.paired("4.pooled-records-tentative", rm, [rec], on="ok")

    # -- 5. outputs of a transaction that was executed or skipped leave the extracted-outputs cache completely --
    with ctx.clause("5.extracted-outputs-cleanup"):
        EOQ = "fuel_core_txpool::extracted_outputs::ExtractedOutputs"
        b = F.unit(f"{EOQ}::new_executed_transaction").root
        rm = [c for c in b.calls if c.bb in b.live and c.name == "remove" and c.path.startswith("std::collections::hash::map::HashMap")]
        by_field = {}
        for c in rm:
            for k, v in Origins(b, 1).atoms(c.args[0]):
                if k == "field" and str(v).startswith(EOQ + "."):
                    by_field.setdefault(str(v).split(".")[-1], []).append(c)
        for fld in ("coins_created", "contract_created_by_tx"):
            cs = by_field.get(fld, [])
            ctx.expect_sites(f"5.{fld}-removed", cs, at_least=1, what=f"self.{fld}.remove(tx_id)")
            if cs:
                ctx.must_pass(f"5.{fld}-removed-on-every-path", b, cs, exits="all",
                              detail=f"every return of new_executed_transaction has dropped the transaction's entry of {fld} "
                                     "(a left-over coin output of a skipped or rolled-back transaction lets a later child pass input validation although the coin never existed)")
                ctx.arg_origin(f"5.{fld}-keyed-by-the-transaction", cs[0], 1, "param:2", depth=0)
        sk = F.unit(f"{EOQ}::new_skipped_transaction").root
        ne = [c for c in sk.calls if c.bb in sk.live and c.is_path(f"{EOQ}::new_executed_transaction")]
        direct = [c for c in sk.calls if c.bb in sk.live and c.name == "remove"]
        ctx.add("5.skipped-transaction-cleans-the-same-way", "MIRROR", len(ne) == 1 or len(direct) >= 2, "new_skipped_transaction drops the same entries (through new_executed_transaction)",
                sites=[c.where() for c in ne + direct], site_key="skip")
        if ne:
            ctx.must_pass("5.skipped-cleanup-on-every-path", sk, ne, exits="all")

    # -- 6. rolling back a preconfirmation always frees the transaction id itself --
    with ctx.clause("6.unspend-clears-the-tx-marker"):
        SPQ = "fuel_core_txpool::spent_inputs::SpentInputs"
        ub = F.unit(f"{SPQ}::unspend_preconfirmed").root
        pops = [c for c in ub.calls if c.bb in ub.live and c.name in ("pop", "remove", "pop_entry") and atom_match(Origins(ub, 1).atoms(c.args[0]), f"field:{SPQ}.spent_inputs")]
        txpop = [c for c in pops if atom_match(Origins(ub, 2).atoms(c.args[1]), "agg:fuel_core_txpool::spent_inputs::InputKey::Tx")]
        ctx.expect_sites("6.tx-marker-removal", txpop, at_least=1, what="spent_inputs.pop(&InputKey::Tx(tx_id))")
        if txpop:
            ctx.must_pass("6.tx-marker-removed-on-every-path", ub, txpop, exits="all",
                          detail="every return of unspend_preconfirmed has removed the InputKey::Tx(tx_id) marker — also for a transaction the node never saw "
                                 "(no tentative record): otherwise the rolled-back transaction is rejected as DuplicateTxId when it is submitted again")
            ctx.arg_origin("6.marker-of-the-rolled-back-tx", txpop[0], 1, "param:2", depth=2)
        tr = [c for c in ub.calls if c.bb in ub.live and c.name == "remove" and atom_match(Origins(ub, 1).atoms(c.args[0]), f"field:{SPQ}.tentative_spent")]
        ctx.expect_sites("6.tentative-record-consumed", tr, exactly=1, what="tentative_spent.remove(&tx_id)")
