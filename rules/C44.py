"""C44 — only properly delegated, unexpired preconfirmations are accepted from peers (DESIGN §7 C44)."""
from core import AnchorMissing, Origins, atom_match, CMP_CALLS

LEVEL = "other"
EXPLANATION = """
Structural necessary conditions of C44 in fuel_core_tx_status_manager::service, for all paths:
(1) new_preconfirmations_from_p2p matches the gossip message without wildcard; handle_preconfirmations
is reached only on the true edge of check_preconfirmation_signature; each verified edge notifies
Accept and each failed edge notifies Reject (constant acceptance values); (2) in
check_preconfirmation_signature the `now > expiration` reject dominates the key lookup, the lookup
is `delegate_keys.get(batch expiration)`, its absence yields false (unwrap_or(false)), the key handed
to verify_preconfirmation is the looked-up one, and verify_preconfirmation returns true only on the
Ok arm of `delegate_key.verify`; the delegate_keys map is touched only by get (verification),
insert (add_new_delegate) and retain (expiry) — no other reader; (3) add_new_delegate inserts only on
the verified edge, `verified` is `recover(message).is_ok_and(owner == expected)` where expected is
read from ProtocolPublicKey::latest_address() on every call (no cached copy), the inserted key and
value are the sealed entity's expiration and public key, expired delegates are dropped on every
delegation and the retain predicate keeps `exp > now`; (4) handle_preconfirmations is called only
from the guarded p2p site and the local update path.
"""
NOT_DECIDED = """Signature cryptography; the clock."""

CR = ["fuel_core_tx_status_manager"]
SV = "fuel_core_tx_status_manager::service::SignatureVerification"
TASK = "fuel_core_tx_status_manager::service::Task"
NOTIFY = "fuel_core_tx_status_manager::ports::P2PSubscriptions::notify_gossip_transaction_validity"
ACC = "fuel_core_types::services::p2p::GossipsubMessageAcceptance"


def acceptance(b, c):
    at = Origins(b, 0).atoms(c.args[2])
    return {a[1].rsplit("::", 1)[-1] for a in at if a[0] == "agg" and a[1].startswith(ACC)}


def check(ctx):
    F = ctx.F
    with ctx.clause("1.p2p-entry"):
        b = ctx.body_with(f"{TASK}::new_preconfirmations_from_p2p", f"{SV}::check_preconfirmation_signature")
        ctx.dispatch_total("1.message-dispatch", b, "fuel_core_types::services::p2p::PreConfirmationMessage")
        chk = ctx.call_tests(b, f"{SV}::check_preconfirmation_signature")
        add = ctx.call_tests(b, f"{SV}::add_new_delegate")
        hp = b.calls_to(f"{TASK}::handle_preconfirmations")
        ctx.expect_sites("1.handle-site", hp, exactly=1, what="handle_preconfirmations in the p2p path")
        ctx.guarded("1.statuses-only-if-verified", b, hp, chk, truth=True,
                    detail="a batch changes statuses only if its signature check passed")
        notes = b.calls_to(NOTIFY)
        ctx.expect_sites("1.notify-sites", notes, exactly=4, what="gossip validity notifications")
        acc = [c for c in notes if acceptance(b, c) == {"Accept"}]
        rej = [c for c in notes if acceptance(b, c) == {"Reject"}]
        ctx.add("1.notify-constants", "CONST", len(acc) == 2 and len(rej) == 2, f"2 Accept + 2 Reject notifications (found {len(acc)}/{len(rej)})",
                sites=[c.where() for c in notes], site_key="consts")
        true_edges = [(sw.bb, lab) for sw, pol in chk + add for lab in sw.edges_for_truth(True if pol else False)]
        false_edges = [(sw.bb, lab) for sw, pol in chk + add for lab in sw.edges_for_truth(False if pol else True)]
        p = b.path([0], [c.bb for c in acc], cut_edges=set(true_edges)) if acc and true_edges else [0]
        ctx.add("1.accept-only-if-verified", "GUARD", p is None, "Accept is reported only on a verified edge", sites=[c.where() for c in acc], site_key="acc")
        p = b.path([0], [c.bb for c in rej], cut_edges=set(false_edges)) if rej and false_edges else [0]
        ctx.add("1.reject-only-if-failed", "GUARD", p is None, "Reject is reported only on a failed edge", sites=[c.where() for c in rej], site_key="rej")
        for name, tests in (("batch", chk), ("delegation", add)):
            for truth, sites, what in ((True, acc, "Accept"), (False, rej, "Reject")):
                starts = [ctx._edge_target(b, (sw.bb, lab)) for sw, pol in tests for lab in sw.edges_for_truth(truth if pol else not truth)]
                p = b.path(starts, b.return_blocks(), cut_blocks=[c.bb for c in sites]) if starts else [0]
                ctx.add(f"1.{name}-{what}-always-reported", "PAIR", p is None, f"every {'verified' if truth else 'failed'} {name} is reported as {what}",
                        sites=[c.where() for c in sites], site_key=f"{name}:{what}")

    with ctx.clause("2b.delegate-table"):
        # who touches the delegate key table
        ops = set()
        for body in F.crate("fuel_core_tx_status_manager")["bodies"]:
            if SV in body.adts_touched:
                for (fld, m) in ctx.field_ops(body, body.live, SV):
                    if fld == "delegate_keys":
                        ops.add((body.unit.rsplit("::", 1)[-1], m))
        allowed = {("check_preconfirmation_signature", "get"), ("add_new_delegate", "insert"), ("remove_expired_delegates", "retain")}
        ctx.add("2.delegate-table-accesses", "WMC", ops == allowed,
                f"delegate_keys is accessed only as {sorted(allowed)}; found {sorted(ops)}", sites=sorted(map(str, ops)), site_key="ops")
    with ctx.clause("2.batch-signature"):
        b = ctx.body_with(f"{SV}::check_preconfirmation_signature", "std::collections::hash::map::HashMap::get")
        get = ctx.one_call(b, "std::collections::hash::map::HashMap::get")
        exp = ctx.cmp_tests(b, "Gt", lhs="call:tai64::Tai64::now", rhs="field:fuel_core_types::services::preconfirmation::Preconfirmations.expiration")
        ctx.guarded("2.unexpired-before-lookup", b, [get], exp, truth=False, detail="an expired batch is rejected before any key is consulted")
        falses = b.const_return_blocks(0)
        for sw, pol in exp:
            for lab in sw.edges_for_truth(True if pol else False):
                t = ctx._edge_target(b, (sw.bb, lab))
                p = b.path([t], b.return_blocks(), cut_blocks=falses)
                ctx.add("2.expired-returns-false", "REJECT", p is None, "now > expiration returns false", sites=[f"bb{sw.bb}"], site_key="expired")
        ctx.arg_origin("2.lookup-in-delegate-keys", get, 0, f"field:{SV}.delegate_keys")
        ctx.arg_origin("2.lookup-by-batch-expiration", get, 1, "field:fuel_core_types::services::preconfirmation::Preconfirmations.expiration")
        uo = ctx.one_call(b, "core::option::Option::unwrap_or")
        ctx.const_arg("2.missing-key-fails-closed", uo, 1, 0, detail="no delegate key for the expiration => false")
        ctx.flows("2.result-is-lookup-verification", get, to_return=True,
                  through_calls=("core::option::Option::map", "core::option::Option::unwrap_or"))
        u = F.unit(f"{SV}::check_preconfirmation_signature")
        vcalls = u.calls_to(f"{SV}::verify_preconfirmation")
        ctx.expect_sites("2.verify-site", vcalls, exactly=1, what="verify_preconfirmation call")
        for c in vcalls:
            ok = c.body.is_closure_like() and ("param", 2) in Origins(c.body, 0).atoms(c.args[0]) and \
                atom_match(Origins(b, 0).atoms(ctx.one_call(b, "core::option::Option::map").args[1]), f"closure:{c.body.defq}")
            ctx.add("2.verified-with-looked-up-key", "PROV", ok, "the key given to verify_preconfirmation is the one found for the batch expiration",
                    sites=[c.where()], site_key="key")
        vb = F.unit(f"{SV}::verify_preconfirmation").root
        ver = ctx.one_call(vb, "ed25519::verify::Verifier::verify", "*::Verifier::verify", "*VerifyingKey::verify*")
        trues = vb.const_return_blocks(1)
        ctx.expect_sites("2.verify-true-return", sorted(trues), exactly=1, what="`true` return of verify_preconfirmation")
        ctx.after_ok("2.true-only-if-signature-ok", ver, trues, detail="true only on the Ok arm of delegate_key.verify")
        ctx.arg_origin("2.verify-with-given-key", ver, 0, "param:1")

    with ctx.clause("3.delegation"):
        b = ctx.body_with(f"{SV}::add_new_delegate", "std::collections::hash::map::HashMap::insert")
        ins = ctx.one_call(b, "std::collections::hash::map::HashMap::insert")
        la = b.calls_to("fuel_core_tx_status_manager::service::ProtocolPublicKey::latest_address")
        ctx.must_pass("3.current-key-read-every-time", b, la, exits="all", detail="the current protocol address is read on every delegation")
        ok_call = ctx.one_call(b, "core::result::Result::is_ok_and")
        ver = ctx.value_tests(b, "call:core::result::Result::is_ok_and")
        ctx.guarded("3.insert-only-if-verified", b, [ins], ver, truth=True)
        ctx.arg_origin("3.verified-from-recover", ok_call, 0, "call:fuel_crypto::secp256::signature::Signature::recover")
        ctx.flows("3.verified-is-returned", ok_call, to_return=True)
        u = F.unit(f"{SV}::add_new_delegate")
        cl = [x for x in u.bodies if x is not b and [c for c in x.calls if c.path in CMP_CALLS]]
        ctx.expect_sites("3.owner-comparison-closure", [x.defq for x in cl], exactly=1, what="closure comparing the recovered owner")
        if cl:
            cb = cl[0]
            cmpc = [c for c in cb.calls if c.path in CMP_CALLS][0]
            a0, a1 = Origins(cb, 1).atoms(cmpc.args[0]), Origins(cb, 1).atoms(cmpc.args[1])
            own = "call:fuel_tx::transaction::types::input::Input::owner"
            # which side is the recovered owner, which the captured expected address (by origin, not by name)
            side_owner, side_exp = (cmpc.args[0], cmpc.args[1]) if atom_match(a0, own) else (cmpc.args[1], cmpc.args[0])
            exp = ctx.resolved_atoms(u, cb, side_exp, 1)
            eq = CMP_CALLS[cmpc.path] == "Eq" and atom_match(a0 | a1, own) and any(k == "upvar" for k, v in Origins(cb, 1).atoms(side_exp)) and not atom_match(exp, own)
            ctx.add("3.owner-equals-expected", "PROV", eq, "verified = (owner(recovered key) == expected address captured from the caller)", sites=[cmpc.where()], site_key="eq")
            flds = {v for k, v in exp if k == "field" and str(v).startswith(SV + ".")}
            good = atom_match(exp, "call:fuel_core_tx_status_manager::service::ProtocolPublicKey::latest_address") and not (flds - {SV + ".protocol_pubkey"})
            ctx.add("3.expected-is-fresh-protocol-address", "PROV", good,
                    "the expected address comes straight from latest_address() of the protocol key (no cached state)", sites=sorted(map(str, flds)) or [cmpc.where()], site_key="fresh",
                    witness=None if good else {"fields": sorted(map(str, flds))})
        ctx.arg_origin("3.insert-into-delegate-keys", ins, 0, f"field:{SV}.delegate_keys")
        ctx.arg_origin("3.inserted-key-is-expiration", ins, 1, "field:fuel_core_types::services::p2p::DelegatePreConfirmationKey.expiration")
        ctx.arg_origin("3.inserted-value-is-public-key", ins, 2, "field:fuel_core_types::services::p2p::DelegatePreConfirmationKey.public_key")
        ctx.must_pass("3.expired-dropped-on-every-delegation", b, b.calls_to(f"{SV}::remove_expired_delegates"), exits="all")
        ru = F.unit(f"{SV}::remove_expired_delegates")
        rc = [x for x in ru.bodies if [c for c in x.calls if c.path in CMP_CALLS]]
        ok = False
        for x in rc:
            for c in x.calls:
                if c.path in CMP_CALLS:
                    rel = CMP_CALLS[c.path]
                    a0, a1 = Origins(x, 1).atoms(c.args[0]), Origins(x, 1).atoms(c.args[1])
                    now0, now1 = atom_match(a0, "upvar:now"), atom_match(a1, "upvar:now")
                    ok = (rel == "Gt" and now1 and not now0) or (rel == "Lt" and now0 and not now1)
        ctx.add("3.retain-keeps-unexpired", "PROV", ok, "retain keeps exactly the delegations with exp > now", sites=[x.defq for x in rc], site_key="retain")
        rb = ru.root
        ctx.arg_origin("3.now-is-clock", ctx.one_call(rb, "std::collections::hash::map::HashMap::retain"), 0, f"field:{SV}.delegate_keys")

    with ctx.clause("4.callers"):
        ctx.only_callers("4.handle_preconfirmations-callers", f"{TASK}::handle_preconfirmations",
                         [f"{TASK}::new_preconfirmations_from_p2p", f"<{TASK} as fuel_core_services::service::RunnableTask>::run"], CR, min_sites=2)
        ctx.only_callers("4.signature-check-callers", f"{SV}::verify_preconfirmation", [f"{SV}::check_preconfirmation_signature"], CR)
