"""C13 — the block Merkle accumulator is append-only and exact (DESIGN §7 C13)."""
from core import AnchorMissing, Origins, atom_match

LEVEL = "other"
EXPLANATION = """
Structural necessary conditions of C13 in fuel_core_storage::blueprint::merklized, for all paths:
(1) SIBLING over the mutating entry points of the Merklized blueprint (BlueprintMutate: put, replace,
take, delete; SupportsBatching: init, insert, remove — enumerated from the traits): a value-column
mutation or a tree append for an *existing* key must be rejected, i.e. each method passes the
existence guard `Self::remove` (whose `exists == true` edge is an error exit) on every success path,
directly or through a sibling that does (replace applies it after the write, on the `prev.is_some()`
edge; init/insert go through replace); (2) insert_into_tree loads the tree at the version of the
`Latest` metadata entry, pushes exactly one leaf (the encoded value), and writes the same new metadata
value under Primary(key) and under Latest, built from tree.leaves_count() / tree.root() after the push;
(3) insert_into_tree is called only from put / replace; the guard's true edge is an error.
"""
NOT_DECIDED = """The Merkle arithmetic itself (library); root values."""

CR = ["fuel_core_storage"]
ME = "fuel_core_storage::blueprint::merklized::Merklized"
BM = "fuel_core_storage::blueprint::BlueprintMutate"
SB = "fuel_core_storage::blueprint::SupportsBatching"
GUARD = f"{ME}::remove"
KVM = "fuel_core_storage::kv_store::KeyValueMutate"


def check(ctx):
    F = ctx.F
    with ctx.clause("1.existence-guard"):
        gb = F.unit(GUARD).root
        ex = ctx.call_tests(gb, "fuel_core_storage::kv_store::KeyValueInspect::exists") or ctx.value_tests(gb, "call:fuel_core_storage::kv_store::KeyValueInspect::exists")
        ctx.test_leads_to_error("1.guard-rejects-existing", gb, ex, truth=True, detail="an existing entry can be neither removed nor overridden")
        ctx.guarded("1.guard-ok-only-if-absent", gb, ctx.ok_return_blocks(gb), ex, truth=False)
        methods = {m["n"] for m in F.trait(BM)["methods"]} | set()
        ctx.add("1.mutate-trait-methods", "COUNT", methods == {"put", "replace", "take", "delete"}, f"BlueprintMutate methods: {sorted(methods)} (a new mutating method needs a guard rule)",
                sites=sorted(methods), site_key="bm")
        bmeth = {m["n"] for m in F.trait(SB)["methods"]}
        ctx.add("1.batch-trait-methods", "COUNT", bmeth == {"init", "insert", "remove"}, f"SupportsBatching methods: {sorted(bmeth)}", sites=sorted(bmeth), site_key="sb")
        rb_ = F.units(f"<{ME} as {SB}>::remove", crate="fuel_core_storage")[0].root
        rn = ctx.one_call(rb_, "core::iter::traits::iterator::Iterator::next")
        rsome, _ = ctx.ok_edges(rn)
        rg = rb_.calls_to(GUARD)
        ctx.add("1.batch-remove-every-item-guarded", "MPT", bool(rg) and rb_.path([ctx._edge_target(rb_, e) for e in rsome], [rn.bb], cut_blocks=[c.bb for c in rg] + list(rb_.error_blocks())) is None,
                "every item of a batch removal passes the guard", sites=[c.where() for c in rg], site_key="br")
        for tr, m, via in ((BM, "put", None), (BM, "take", None), (BM, "delete", None),
                           (BM, "replace", "prev"), (SB, "insert", f"{BM}::replace"), (SB, "init", f"{SB}::insert")):
            us = F.units(f"<{ME} as {tr}>::{m}", crate="fuel_core_storage")
            if not us:
                raise AnchorMissing(f"<Merklized as {tr}>::{m}")
            b = us[0].root
            g = b.calls_to(GUARD)
            if via is None:
                ctx.must_pass(f"1.{tr.rsplit('::', 1)[-1]}-{m}-guarded", b, g, detail=f"Merklized::{m} succeeds only for a key that is not stored yet")
                if m == "take":
                    mut = b.calls_to(f"{KVM}::take")
                    ctx.dominated("1.take-guard-before-mutation", b, mut, by_blocks=g)
                if m == "put":
                    mut = b.calls_to(f"{KVM}::put") + b.calls_to(f"{ME}::insert_into_tree")
                    ctx.dominated("1.put-guard-before-write", b, mut, by_blocks=g, detail="put must not overwrite a stored block / append to the tree for an existing key")
            elif via == "prev":
                rep = ctx.one_call(b, f"{KVM}::replace")
                t = ctx.call_tests(b, "core::option::Option::is_some")
                ctx.expect_sites("1.replace-prev-test", [f"bb{sw.bb}" for sw, _ in t], exactly=1, what="`prev.is_some()` test")
                edges = [(sw.bb, lab) for sw, pol in t for lab in sw.edges_for_truth(True if pol else False)]
                tree = b.calls_to(f"{ME}::insert_into_tree")
                p = b.path([ctx._edge_target(b, e) for e in edges], [c.bb for c in tree] + b.return_blocks(), cut_blocks=[c.bb for c in g] + list(b.error_blocks())) if edges else [0]
                ctx.add("1.replace-existing-goes-through-guard", "MPT", p is None and bool(g), "replacing an existing entry reaches the tree / a success return only through the guard (which rejects it)",
                        sites=[c.where() for c in g], site_key="replace")
                for c in b.calls_to("core::option::Option::is_some"):
                    ctx.arg_origin("1.prev-is-replace-result", c, 0, f"call:{KVM}::replace", depth=3)
                # the tree is appended only past the `prev.is_none()` edge or the guard's ok-edge
                fe = [(sw.bb, lab) for sw, pol in t for lab in sw.edges_for_truth(False if pol else True)]
                ge = [e for c in g for e in ctx.ok_edges(c)[0]]
                ctx.dominated("1.replace-tree-append-after-guard", b, tree, by_edges=fe + ge,
                              detail="a rejected replace must not have touched the tree / the recorded roots")
            else:
                inner = b.calls_to(via)
                ctx.must_pass(f"1.{tr.rsplit('::', 1)[-1]}-{m}-via-guarded-sibling", b, inner, exits="all" if m == "init" else "success") if m == "init" else None
                if m == "insert":
                    nxt = ctx.one_call(b, "core::iter::traits::iterator::Iterator::next")
                    some, _ = ctx.ok_edges(nxt)
                    ok = bool(inner) and b.path([ctx._edge_target(b, e) for e in some], [nxt.bb], cut_blocks=[c.bb for c in inner] + list(b.error_blocks())) is None
                    ctx.add("1.batch-insert-every-item-through-replace", "MPT", ok, "every batch item goes through the guarded replace", sites=[c.where() for c in inner], site_key="bi")
                else:
                    ctx.add("1.batch-init-through-insert", "MPT", bool(inner) and b.path([0], b.return_blocks(), cut_blocks=[c.bb for c in inner]) is None,
                            "init delegates to the guarded insert", sites=[c.where() for c in inner], site_key="init")
        ctx.only_callers("1.guard-callers", GUARD, [f"<{ME} as {BM}>::*", f"<{ME} as {SB}>::*"], CR, min_sites=4)

    with ctx.clause("2.insert_into_tree"):
        b = ctx.body_with(f"{ME}::insert_into_tree", "fuel_merkle::binary::merkle_tree::MerkleTree::push")
        load = ctx.one_call(b, "fuel_merkle::binary::merkle_tree::MerkleTree::load")
        push = b.calls_to("fuel_merkle::binary::merkle_tree::MerkleTree::push")
        ctx.expect_sites("2.single-push", push, exactly=1, what="tree.push (one leaf per stored block)")
        ctx.arg_origin("2.load-at-latest-version", load, 1, "call:fuel_core_storage::tables::merkle::DenseMerkleMetadata::version", depth=0)
        gets = [c for c in b.calls if c.bb in b.live and c.path in ("fuel_storage::StorageMut::get", "fuel_storage::StorageRef::get", "fuel_storage::StorageInspect::get")]
        ctx.expect_sites("2.latest-read", gets, exactly=1, what="read of the Latest metadata")
        for c in gets:
            ctx.arg_origin("2.read-key-is-latest", c, 1, "agg:fuel_core_storage::tables::merkle::DenseMetadataKey::Latest", depth=0)
        ctx.arg_origin("2.push-encoded-value", push[0], 1, "call:fuel_core_storage::codec::Encode::encode", depth=2)
        ins = [c for c in b.calls if c.bb in b.live and c.path == "fuel_storage::StorageMut::insert"]
        ctx.expect_sites("2.two-metadata-writes", ins, exactly=2, what="Metadata inserts (Primary(key) and Latest)")
        keys = set()
        vals = []
        for c in ins:
            at = Origins(b, 0).atoms(c.args[1])
            keys |= {a[1].rsplit("::", 1)[-1] for a in at if a[0] == "agg" and "DenseMetadataKey" in a[1]}
            vals.append(frozenset(a for a in Origins(b, 1).atoms(c.args[2]) if a[0] in ("call", "agg")))
            ctx.dominated(f"2.metadata-after-push-bb{c.bb}", b, [c], by_blocks=push)
            ctx.arg_origin(f"2.metadata-from-tree-root-bb{c.bb}", c, 2, "call:fuel_merkle::binary::merkle_tree::MerkleTree::root", depth=1)
            ctx.arg_origin(f"2.metadata-from-leaves-count-bb{c.bb}", c, 2, "call:fuel_merkle::binary::merkle_tree::MerkleTree::leaves_count", depth=1)
        ctx.add("2.primary-and-latest-keys", "PAIR", keys == {"Primary", "Latest"}, f"metadata written under {sorted(keys)}", sites=sorted(keys), site_key="keys")
        ctx.add("2.same-metadata-value", "PAIR", len(vals) == 2 and vals[0] == vals[1], "both entries receive the same metadata value", sites=[c.where() for c in ins], site_key="same")
        root = ctx.one_call(b, "fuel_merkle::binary::merkle_tree::MerkleTree::root")
        ctx.dominated("2.root-after-push", b, [root], by_blocks=push)
        ctx.must_pass("2.always-both-writes", b, [ins[0]]) if ins else None
        if len(ins) == 2:
            ctx.must_pass("2.always-latest-write", b, [ins[1]])

    with ctx.clause("3.tree-append-callers"):
        ctx.only_callers("3.insert_into_tree-callers", f"{ME}::insert_into_tree", [f"<{ME} as {BM}>::put", f"<{ME} as {BM}>::replace"], CR, min_sites=2)
