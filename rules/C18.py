"""C18 — transactions handed to the block producer respect constraints and order (DESIGN §7 C18)."""
from core import AnchorMissing, Origins, atom_match

LEVEL = "other"
EXPLANATION = """
Structural necessary conditions of C18 for all paths of RatioTipGasSelection::gather_best_txs:
the extraction (`storage.remove`) is reachable only past the pass-edges of the minimum-gas-price,
gas-left and space-left comparisons and of the `budget == 0` break; an excluded contract input
leads back to the outer loop without extracting; the three budgets are decreased (saturating_sub
with the same accessors, count by 1) on every path to the extraction; the iteration source is the
BTreeMap keyed by Reverse<Key> whose Ord compares the tip/gas ratio first; that map is mutated only
through new_executable_transaction / on_removed_transaction_inner; in
Pool::extract_transactions_for_block every extracted entry is recorded in the extracted outputs,
has its inputs marked spent and is removed from the pool's components. (4) a dependent of a committed / preconfirmed transaction becomes executable only on the edge where it has no remaining parent in the pool; the promotion list is never bulk-extended. The count / gas / size budgets are re-tested between two extractions of one pass (count by `== 0` / `> 0`, gas and size also by the per-transaction fit test); the dependency test concerns the promoted dependent.
"""
NOT_DECIDED = """Optimality and tie-breaking values; mutual conflict-freedom is C16; parent-before-child is C17."""

CR = ["fuel_core_txpool"]
SEL = "fuel_core_txpool::selection_algorithms::ratio_tip_gas::RatioTipGasSelection"
SA = "fuel_core_txpool::selection_algorithms::SelectionAlgorithm"
RST = "fuel_core_txpool::selection_algorithms::ratio_tip_gas::RatioTipGasSelectionAlgorithmStorage"
CONS = "fuel_core_txpool::selection_algorithms::Constraints"
PTX = "fuel_core_types::services::txpool::PoolTransaction"
POOL = "fuel_core_txpool::pool::Pool"
MAP = f"field:{SEL}.executable_transactions_sorted_tip_gas_ratio"


def check(ctx):
    F = ctx.F
    with ctx.clause("1.guards"):
        b = F.unit(f"<{SEL} as {SA}>::gather_best_txs").root
        remove = ctx.one_call(b, f"{RST}::remove")
        price = ctx.cmp_tests(b, "Lt", lhs=f"call:{PTX}::max_gas_price", rhs=f"field:{CONS}.minimal_gas_price")
        ctx.guarded("1.min-gas-price", b, [remove], price, truth=False, detail="only transactions paying at least the minimum gas price are extracted")
        gas = ctx.cmp_tests(b, "Gt", lhs=f"call:{PTX}::max_gas", rhs=f"field:{CONS}.max_gas")
        ctx.guarded("1.fits-gas", b, [remove], gas, truth=False, detail="max_gas() <= gas_left")
        size = ctx.cmp_tests(b, "Gt", lhs=f"call:{PTX}::metered_bytes_size", rhs=f"field:{CONS}.maximum_block_size")
        ctx.guarded("1.fits-size", b, [remove], size, truth=False, detail="metered_bytes_size() <= space_left")
        # count / budgets not exhausted: `== 0` break (false edge) or `> 0` loop condition (true edge)
        for name, fld in (("count", "maximum_txs"), ("gas", "max_gas"), ("size", "maximum_block_size")):
            edges = []
            n = 0
            for sw, pol in ctx.cmp_tests(b, "Eq", lhs=f"field:{CONS}.{fld}", rhs="const:0"):
                n += 1
                for lab in sw.edges_for_truth(False if pol else True):
                    edges.append((sw.bb, lab))
            for sw, pol in ctx.cmp_tests(b, "Gt", lhs=f"field:{CONS}.{fld}", rhs="const:0"):
                n += 1
                for lab in sw.edges_for_truth(True if pol else False):
                    edges.append((sw.bb, lab))
            p = b.path([0], [remove.bb], cut_edges=set(edges)) if edges else [0]
            ctx.add(f"1.budget-left-{name}", "GUARD", p is None, f"extraction only while the {name} budget is not exhausted",
                    sites=[f"{n} tests"], site_key=name, witness=None if p is None else {"path": b.describe_path(p)})
            # ... and it is re-tested between two extractions (the budget shrinks with every extracted transaction)
            fit = {"gas": gas, "size": size}.get(name, [])      # for gas and size the per-transaction fit test also protects the budget
            edges2 = set(edges) | {(sw.bb, lab) for sw, pol in fit for lab in sw.edges_for_truth(False if pol else True)}
            p2 = b.path([remove.target], [remove.bb], cut_edges=edges2) if edges and remove.target is not None else [0]
            ctx.add(f"1.budget-retested-between-extractions-{name}", "GUARD", p2 is None,
                    f"after a transaction was extracted the {name} budget is tested again before the next one is extracted (otherwise one pass over the executable set can exceed it)",
                    sites=[remove.where()], site_key=name + ":again", witness=None if p2 is None else {"path": b.describe_path(p2)})
        # excluded contracts: the true edge of `excluded_contracts.contains(..)` returns to the outer loop
        outer = [c for c in b.calls_to("core::iter::traits::iterator::Iterator::next") if atom_match(Origins(b, 1).atoms(c.args[0]), MAP)]
        ctx.expect_sites("1.outer-loop", outer, exactly=1, what="loop over the sorted executable transactions")
        ctx.arg_origin("1.iteration-source-is-sorted-map", outer[0], 0, MAP)
        excl = ctx.call_tests(b, "std::collections::hash::set::HashSet::contains", arg_spec=f"field:{CONS}.excluded_contracts")
        ok = bool(excl)
        for sw, pol in excl:
            for lab in sw.edges_for_truth(True if pol else False):
                t = ctx._edge_target(b, (sw.bb, lab))
                if b.path([t], [remove.bb], cut_blocks=[outer[0].bb]) is not None:
                    ok = False
        ctx.add("1.excluded-contract-skips", "GUARD", ok, "a transaction touching an excluded contract is skipped (continue 'outer)",
                sites=[f"bb{sw.bb}" for sw, _ in excl], site_key="excluded")
        enum_q = "fuel_tx::transaction::types::input::Input"
        arms = ctx.match_arms(b, enum_q)
        ctx.add("1.excluded-check-on-contract-inputs", "DISPATCH", all(sw.bb in arms.get("Contract", set()) for sw, _ in excl) and bool(excl),
                "the exclusion test is evaluated for Input::Contract", sites=[f"bb{sw.bb}" for sw, _ in excl], site_key="excluded-arm")
        # budgets decreased before the extraction
        subs = {
            "gas": [c for c in b.calls_to("u64::saturating_sub") if atom_match(Origins(b, 1).atoms(c.args[1]), f"call:{PTX}::max_gas")],
            "size": [c for c in b.calls_to("usize::saturating_sub") if atom_match(Origins(b, 1).atoms(c.args[1]), f"call:{PTX}::metered_bytes_size")],
            "count": [c for c in b.calls if c.bb in b.live and c.name == "saturating_sub" and atom_match(Origins(b, 0).atoms(c.args[1]), "const:1")],
        }
        for name, cs in subs.items():
            ctx.expect_sites(f"1.{name}-decrement", cs, exactly=1, what=f"{name} budget decrement")
            ctx.dominated(f"1.{name}-decremented-before-extraction", b, [remove], by_blocks=cs,
                          detail=f"the {name} budget is charged for every extracted transaction")
        # result collects what was removed
        ctx.flows("1.removed-is-returned", remove, to_return=True, through_calls=("core::option::Option::expect",))
        ctx.arg_origin("1.remove-the-checked-entry", remove, 1, "call:core::iter::traits::iterator::Iterator::next")

    with ctx.clause("2.order"):
        kc = F.unit(f"<{SEL.rsplit('::', 1)[0]}::Key as core::cmp::Ord>::cmp").root
        cmps = sorted(kc.calls_to("core::cmp::Ord::cmp"), key=lambda c: c.bb)
        ctx.expect_sites("2.key-cmp-calls", cmps, at_least=2, what="component comparisons in Key::cmp")
        first = [c for c in cmps if atom_match(Origins(kc, 0).atoms(c.args[0]), f"field:{SEL.rsplit('::', 1)[0]}::Key.ratio")]
        ctx.expect_sites("2.ratio-compared", first, exactly=1, what="ratio comparison in Key::cmp")
        others = [c for c in cmps if c not in first]
        ctx.dominated("2.ratio-first", kc, others, by_blocks=first, detail="the tip/gas ratio is the primary sort key")
        adt = F.adt(SEL)
        fty = [f["t"] for f in adt["variants"][0]["fields"] if f["n"] == "executable_transactions_sorted_tip_gas_ratio"]
        ctx.add("2.sorted-by-reverse-key", "PROV", bool(fty) and "BTreeMap<std::cmp::Reverse<" in fty[0] and "ratio_tip_gas::Key>" in fty[0],
                f"executable transactions are kept in a BTreeMap ordered by Reverse<Key>: {fty}", sites=fty, site_key="map-type")
        kb = F.unit(f"{SEL}::key").root
        rn = ctx.one_call(kb, "num_rational::Ratio::new")
        ctx.arg_origin("2.ratio-tip", rn, 0, f"call:{PTX}::tip", depth=1)
        ctx.arg_origin("2.ratio-gas", rn, 1, f"call:{PTX}::max_gas", depth=1)
        ctx.only_field_writers("2.sorted-map-writers", SEL, "executable_transactions_sorted_tip_gas_ratio",
                               [f"<{SEL} as {SA}>::new_executable_transaction", f"{SEL}::on_removed_transaction_inner", f"{SEL}::new"],
                               CR, kinds=("write", "refmut"), min_sites=2)

    with ctx.clause("3.extraction-settles"):
        u = F.unit(f"{POOL}::extract_transactions_for_block")
        cl = [b for b in u.bodies if b.calls_to(f"{POOL}::update_components_and_caches_on_removal")]
        ctx.expect_sites("3.per-entry-closure", [b.defq for b in cl], exactly=1, what="per-entry closure of extract_transactions_for_block")
        cb = cl[0]
        for name, callee in (("extracted-outputs", "fuel_core_txpool::extracted_outputs::ExtractedOutputs::new_extracted_transaction"),
                             ("inputs-spent", "fuel_core_txpool::spent_inputs::SpentInputs::maybe_spend_inputs"),
                             ("removed-from-pool", f"{POOL}::update_components_and_caches_on_removal")):
            ctx.must_pass(f"3.{name}", cb, cb.calls_to(callee), exits="all", detail=f"every extracted entry passes {name}")
        rb = ctx.body_with(u, f"{SA}::gather_best_txs")
        g = ctx.one_call(rb, f"{SA}::gather_best_txs")
        ctx.arg_origin("3.constraints-passed", g, 1, "param:2")

    # -- 4. a child becomes executable (and so can be handed out) only when no parent of it is left in the pool --
    with ctx.clause("4.executable-only-without-pooled-parents"):
        NE4 = f"{SA}::new_executable_transaction"
        HD4 = "fuel_core_txpool::storage::Storage::has_dependencies"
        for name, fn in (("committed", "process_committed_transactions"), ("preconfirmed", "process_preconfirmed_committed_transaction")):
            b4 = ctx.body_with(f"{POOL}::{fn}", NE4)
            t4 = ctx.call_tests(b4, HD4)
            nes = [c for c in b4.calls_to(NE4) if c.bb in b4.live]
            pushes = [c for c in b4.calls_to("alloc::vec::Vec::push") if any(ctx.same_local(b4, c.args[0], ne.args[1], depth=2) for ne in nes)]
            targets = pushes if pushes else nes
            hd4 = [c for c in b4.calls_to(HD4) if c.bb in b4.live]
            if hd4 and pushes:
                ctx.add(f"4.{name}-tested-transaction-is-the-promoted-one", "PROV", all(ctx.same_local(b4, hd4[0].args[1], p_.args[1], depth=1) for p_ in pushes),
                        "has_dependencies is asked about the dependent that is promoted", sites=[hd4[0].where()], site_key=name + ":same")
            ctx.guarded(f"4.{name}-promotion-only-if-no-remaining-parent", b4, targets, t4, truth=False,
                        detail="a dependent of a committed transaction is promoted to executable only if it has no other parent in the pool "
                               "(otherwise the child can be listed before, or without, its remaining parent)")
            if pushes:
                ext = [c for c in b4.calls if c.bb in b4.live and c.name in ("extend", "append") and any(ctx.same_local(b4, c.args[0], ne.args[1], depth=2) for ne in nes)]
                ctx.expect_sites(f"4.{name}-no-unguarded-bulk-promotion", ext, exactly=0, what="bulk extend of the promotion list (bypasses the per-dependent test)")
