"""C32 — peers are served exactly what the database holds, within limits (guards only; DESIGN §7 C32)."""
from core import AnchorMissing, Origins, atom_match

LEVEL = "other"
EXPLANATION = """
Guard / provenance clauses of C32 in fuel_core_p2p, for all paths: (1) Task::handle_db_request spawns
the database lookup only on the false edge of `range_len > max_len`; the true edge answers
RequestedRangeTooLarge and returns; range_len is the length of the requested range;
(2) CachedView::get_from_cache_or_db: the cached prefix is read height by height from the start of the
range and stops at the first uncached height (missing_start); the database is asked for
missing_start..range.end; the fetched items are zipped with that same range when they are cached and
appended after the cached prefix (order of items.push); a None from the database yields None; the cache
is filled only there, with (height, item) pairs of the zip; the two public getters pass the matching
cache and P2pDb method.
"""
NOT_DECIDED = """Codec round-trip and message size limits (value level) — that clause of C32 is out of reach."""

CR = ["fuel_core_p2p"]
CV = "fuel_core_p2p::cached_view::CachedView"
T = "fuel_core_p2p::service::Task"


def check(ctx):
    F = ctx.F
    with ctx.clause("1.range-limit"):
        b = F.unit(f"{T}::handle_db_request").root
        sp = ctx.one_call(b, "fuel_core_services::sync_processor::SyncProcessor::try_spawn")
        big = ctx.cmp_tests(b, "Gt", lhs="call:core::iter::traits::exact_size::ExactSizeIterator::len", rhs="param:7", depth=0)
        ctx.expect_sites("1.limit-test", [f"bb{sw.bb}" for sw, _ in big], exactly=1, what="`range_len > max_len` test")
        ctx.guarded("1.lookup-only-within-limit", b, [sp], big, truth=False, detail="a request for more heights than allowed never reaches the database")
        lv = ctx.one_call(b, "fuel_core_storage::transactional::AtomicView::latest_view")
        ctx.guarded("1.no-view-for-oversized-request", b, [lv], big, truth=False)
        aggs = [bb for bb, j, s in b.stmts() if bb in b.live and s["k"] == "assign" and s["rv"]["k"] == "agg" and s["rv"].get("variant") == "RequestedRangeTooLarge"]
        sends = b.calls_to("fuel_core_p2p::service::TaskP2PService::send_response_msg")
        edges = [(sw.bb, lab) for sw, pol in big for lab in sw.edges_for_truth(True if pol else False)]
        starts = [ctx._edge_target(b, e) for e in edges]
        ctx.add("1.oversized-request-refused", "PAIR", bool(aggs) and bool(starts) and b.path(starts, b.return_blocks(), cut_blocks=aggs) is None and
                b.path(starts, b.return_blocks(), cut_blocks=[c.bb for c in sends]) is None,
                "an oversized request is answered with RequestedRangeTooLarge", sites=[f"bb{x}" for x in aggs], site_key="refuse")
        ln = [c for c in b.calls_to("core::iter::traits::exact_size::ExactSizeIterator::len") if b.path([c.bb], [sw.bb for sw, _ in big]) is not None and not (c.exp or "").startswith("tracing")]
        for c in ln[:1]:
            ctx.arg_origin("1.length-of-requested-range", c, 0, "param:2", depth=0)
        for fn, lim in (("handle_transactions_request", "max_headers_per_request"), ("handle_sealed_headers_request", "max_headers_per_request")):
            hb = F.unit(f"{T}::{fn}").root
            c = ctx.one_call(hb, f"{T}::handle_db_request")
            ctx.arg_origin(f"1.{fn}-limit", c, 6, f"field:{T}.{lim}", depth=1)

    with ctx.clause("2.cached-view"):
        b = F.unit(f"{CV}::get_from_cache_or_db").root
        get = ctx.one_call(b, "quick_cache::sync::Cache::get")
        ins = ctx.one_call(b, "quick_cache::sync::Cache::insert")
        fetch = ctx.one_call(b, "core::ops::function::Fn::call")
        pushes = sorted(b.calls_to("alloc::vec::Vec::push"), key=lambda c: c.bb)
        ctx.expect_sites("2.item-pushes", pushes, exactly=2, what="items.push (cached prefix, fetched suffix)")
        nxts = b.calls_to("core::iter::traits::iterator::Iterator::next")
        cached_loop = [c for c in nxts if b.path([c.bb], [get.bb], cut_blocks=[fetch.bb]) is not None and b.path([get.bb], [c.bb]) is not None]
        ctx.expect_sites("2.prefix-loop", cached_loop, exactly=1, what="loop over the requested range reading the cache")
        ctx.arg_origin("2.prefix-loop-over-request", cached_loop[0], 0, "param:4", depth=0)
        ctx.arg_origin("2.cache-read-by-height", get, 1, "call:core::iter::traits::iterator::Iterator::next", depth=0)
        # a miss leaves the prefix loop (no cached item after the first miss is used)
        miss, _ = ctx.ok_edges(get, polarity="bad")
        ctx.add("2.first-miss-ends-prefix", "GUARD", bool(miss) and all(b.path([ctx._edge_target(b, e)], [get.bb], cut_blocks=[fetch.bb]) is None for e in miss),
                "after the first uncached height nothing more is taken from the cache", sites=[get.where()], site_key="miss")
        rngs = [s for bb, j, s in b.stmts() if bb in b.live and s["k"] == "assign" and s["rv"]["k"] == "agg" and s["rv"].get("adt") == "core::ops::range::Range"]
        ctx.expect_sites("2.missing-range", [s.get("line") for s in rngs], exactly=1, what="missing_start..range.end")
        o = Origins(b, 1)
        for s in rngs:
            f = s["rv"]["fields"]
            st, en = o.atoms(s["rv"]["ops"][f.index("start")]), o.atoms(s["rv"]["ops"][f.index("end")])
            ctx.add("2.fetch-from-first-miss", "PROV", atom_match(st, "call:core::iter::traits::iterator::Iterator::next") or atom_match(st, "local:missing_start"),
                    "the fetch starts at the first uncached height", sites=[str(s.get("line"))], site_key="st")
            ctx.add("2.fetch-to-request-end", "PROV", atom_match(en, "field:core::ops::range::Range.end") and atom_match(en, "param:4"), "the fetch ends at the end of the request",
                    sites=[str(s.get("line"))], site_key="en")
        ctx.arg_origin("2.database-asked-for-missing-range", fetch, 1, "agg:core::ops::range::Range::Range", depth=1)
        zp = ctx.one_call(b, "core::iter::traits::iterator::Iterator::zip")
        ctx.arg_origin("2.zip-heights", zp, 0, "agg:core::ops::range::Range::Range", depth=0)
        ctx.arg_origin("2.zip-fetched-items", zp, 1, "call:core::ops::function::Fn::call", depth=0)
        zl = [c for c in nxts if atom_match(Origins(b, 0).atoms(c.args[0]), "call:core::iter::traits::iterator::Iterator::zip")]
        ctx.expect_sites("2.zip-loop", zl, exactly=1, what="loop over (height, item) pairs")
        ctx.arg_origin("2.cached-under-zipped-height", ins, 1, "call:core::iter::traits::iterator::Iterator::next", depth=0)
        ctx.arg_origin("2.cached-item-is-fetched-item", ins, 2, "call:core::iter::traits::iterator::Iterator::next", depth=0)
        some, _ = ctx.ok_edges(zl[0])
        starts = [ctx._edge_target(b, e) for e in some]
        ctx.add("2.every-fetched-item-served", "MPT", b.path(starts, [zl[0].bb], cut_blocks=[pushes[1].bb]) is None, "every fetched item is appended to the answer", sites=[pushes[1].where()], site_key="serve")
        ctx.add("2.fetched-after-cached-prefix", "ORDER", b.path([pushes[1].bb], [pushes[0].bb]) is None, "fetched items follow the cached prefix", sites=[c.where() for c in pushes], site_key="ord")
        noneb = [bb for bb, j, s in b.stmts() if bb in b.live and s["k"] == "assign" and s["rv"]["k"] == "agg" and s["rv"].get("adt") == "core::option::Option" and s["rv"]["variant"] == "None"]
        fo = ctx.discr_switches(b, "core::option::Option", "call:core::ops::function::Fn::call")
        none_t = [ctx._edge_target(b, (s_.bb, lab)) for s_ in fo for lab in s_.edge_for_value(0)]
        ctx.add("2.database-none-is-none", "PROV", bool(none_t) and b.path(none_t, [c.bb for c in pushes]) is None and b.path(none_t, noneb) is not None,
                "when the database has no data for the range the answer is None", sites=[fetch.where()], site_key="none")
        ctx.only_callers("2.cache-fill-sites", "quick_cache::sync::Cache::insert", [f"{CV}::get_from_cache_or_db"], CR)
        for fn, cache, dbm in (("get_sealed_headers", "sealed_block_headers", "get_sealed_headers"), ("get_transactions", "transactions_on_blocks", "get_transactions")):
            gb = F.unit(f"{CV}::{fn}").root
            c = ctx.one_call(gb, f"{CV}::get_from_cache_or_db")
            ctx.arg_origin(f"2.{fn}-cache", c, 1, f"field:{CV}.{cache}", depth=0)
            ctx.arg_origin(f"2.{fn}-db-method", c, 4, f"fnref:fuel_core_p2p::ports::P2pDb::{dbm}", depth=0)
