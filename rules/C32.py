"""C32 — peers are served exactly what the database holds, within limits (guards only; DESIGN §7 C32)."""
from core import AnchorMissing, Origins, atom_match

LEVEL = "other"
EXPLANATION = """
Guard / provenance clauses of C32 in fuel_core_p2p, for all paths: (1) Task::handle_db_request spawns
the database lookup only on the false edge of `range_len > max_len`; the true edge answers
RequestedRangeTooLarge and returns; range_len is the length of the requested range;
(2) CachedView::get_from_cache_or_db: the cached prefix is read height by height from the start of the
range and stops at the first uncached height (missing_start); the database is asked for
missing_start..range.end; the fetched items are zipped with that same range when they are cached and
appended after the cached prefix (order of items.push); a None from the database yields None; the cache
is filled only there, with (height, item) pairs of the zip; the two public getters pass the matching
cache and P2pDb method. (5) codec: the read is bounded by the configured max_response_size, the read buffer is what is decoded, a length test may reject only len > limit, every encoding is written, protocol V1/V2 dispatch is total and mirrored.
"""
NOT_DECIDED = """Codec round-trip and message size limits (value level) — that clause of C32 is out of reach."""

CR = ["fuel_core_p2p"]
CV = "fuel_core_p2p::cached_view::CachedView"
T = "fuel_core_p2p::service::Task"


def check(ctx):
    F = ctx.F
    with ctx.clause("1.range-limit"):
        b = F.unit(f"{T}::handle_db_request").root
        sp = ctx.one_call(b, "fuel_core_services::sync_processor::SyncProcessor::try_spawn")
        big = ctx.cmp_tests(b, "Gt", lhs="call:core::iter::traits::exact_size::ExactSizeIterator::len", rhs="param:7", depth=0)
        ctx.expect_sites("1.limit-test", [f"bb{sw.bb}" for sw, _ in big], exactly=1, what="`range_len > max_len` test")
        ctx.guarded("1.lookup-only-within-limit", b, [sp], big, truth=False, detail="a request for more heights than allowed never reaches the database")
        lv = ctx.one_call(b, "fuel_core_storage::transactional::AtomicView::latest_view")
        ctx.guarded("1.no-view-for-oversized-request", b, [lv], big, truth=False)
        aggs = [bb for bb, j, s in b.stmts() if bb in b.live and s["k"] == "assign" and s["rv"]["k"] == "agg" and s["rv"].get("variant") == "RequestedRangeTooLarge"]
        sends = b.calls_to("fuel_core_p2p::service::TaskP2PService::send_response_msg")
        edges = [(sw.bb, lab) for sw, pol in big for lab in sw.edges_for_truth(True if pol else False)]
        starts = [ctx._edge_target(b, e) for e in edges]
        ctx.add("1.oversized-request-refused", "PAIR", bool(aggs) and bool(starts) and b.path(starts, b.return_blocks(), cut_blocks=aggs) is None and
                b.path(starts, b.return_blocks(), cut_blocks=[c.bb for c in sends]) is None,
                "an oversized request is answered with RequestedRangeTooLarge", sites=[f"bb{x}" for x in aggs], site_key="refuse")
        ln = [c for c in b.calls_to("core::iter::traits::exact_size::ExactSizeIterator::len") if b.path([c.bb], [sw.bb for sw, _ in big]) is not None and not (c.exp or "").startswith("tracing")]
        for c in ln[:1]:
            ctx.arg_origin("1.length-of-requested-range", c, 0, "param:2", depth=0)
        for fn, lim in (("handle_transactions_request", "max_headers_per_request"), ("handle_sealed_headers_request", "max_headers_per_request")):
            hb = F.unit(f"{T}::{fn}").root
            c = ctx.one_call(hb, f"{T}::handle_db_request")
            ctx.arg_origin(f"1.{fn}-limit", c, 6, f"field:{T}.{lim}", depth=1)

    with ctx.clause("2.cached-view"):
        b = F.unit(f"{CV}::get_from_cache_or_db").root
        get = ctx.one_call(b, "quick_cache::sync::Cache::get")
        ins = ctx.one_call(b, "quick_cache::sync::Cache::insert")
        fetch = ctx.one_call(b, "core::ops::function::Fn::call")
        pushes = sorted(b.calls_to("alloc::vec::Vec::push"), key=lambda c: c.bb)
        ctx.expect_sites("2.item-pushes", pushes, exactly=2, what="items.push (cached prefix, fetched suffix)")
        nxts = b.calls_to("core::iter::traits::iterator::Iterator::next")
        cached_loop = [c for c in nxts if b.path([c.bb], [get.bb], cut_blocks=[fetch.bb]) is not None and b.path([get.bb], [c.bb]) is not None]
        ctx.expect_sites("2.prefix-loop", cached_loop, exactly=1, what="loop over the requested range reading the cache")
        ctx.arg_origin("2.prefix-loop-over-request", cached_loop[0], 0, "param:4", depth=0)
        ctx.arg_origin("2.cache-read-by-height", get, 1, "call:core::iter::traits::iterator::Iterator::next", depth=0)
        # a miss leaves the prefix loop (no cached item after the first miss is used)
        miss, _ = ctx.ok_edges(get, polarity="bad")
        ctx.add("2.first-miss-ends-prefix", "GUARD", bool(miss) and all(b.path([ctx._edge_target(b, e)], [get.bb], cut_blocks=[fetch.bb]) is None for e in miss),
                "after the first uncached height nothing more is taken from the cache", sites=[get.where()], site_key="miss")
        rngs = [s for bb, j, s in b.stmts() if bb in b.live and s["k"] == "assign" and s["rv"]["k"] == "agg" and s["rv"].get("adt") == "core::ops::range::Range"]
        ctx.expect_sites("2.missing-range", [s.get("line") for s in rngs], exactly=1, what="missing_start..range.end")
        o = Origins(b, 1)
        for s in rngs:
            f = s["rv"]["fields"]
            st, en = o.atoms(s["rv"]["ops"][f.index("start")]), o.atoms(s["rv"]["ops"][f.index("end")])
            ctx.add("2.fetch-from-first-miss", "PROV", atom_match(st, "call:core::iter::traits::iterator::Iterator::next") or atom_match(st, "local:missing_start"),
                    "the fetch starts at the first uncached height", sites=[str(s.get("line"))], site_key="st")
            ctx.add("2.fetch-to-request-end", "PROV", atom_match(en, "field:core::ops::range::Range.end") and atom_match(en, "param:4"), "the fetch ends at the end of the request",
                    sites=[str(s.get("line"))], site_key="en")
        ctx.arg_origin("2.database-asked-for-missing-range", fetch, 1, "agg:core::ops::range::Range::Range", depth=1)
        zp = ctx.one_call(b, "core::iter::traits::iterator::Iterator::zip")
        ctx.arg_origin("2.zip-heights", zp, 0, "agg:core::ops::range::Range::Range", depth=0)
        ctx.arg_origin("2.zip-fetched-items", zp, 1, "call:core::ops::function::Fn::call", depth=0)
        zl = [c for c in nxts if atom_match(Origins(b, 0).atoms(c.args[0]), "call:core::iter::traits::iterator::Iterator::zip")]
        ctx.expect_sites("2.zip-loop", zl, exactly=1, what="loop over (height, item) pairs")
        ctx.arg_origin("2.cached-under-zipped-height", ins, 1, "call:core::iter::traits::iterator::Iterator::next", depth=0)
        ctx.arg_origin("2.cached-item-is-fetched-item", ins, 2, "call:core::iter::traits::iterator::Iterator::next", depth=0)
        some, _ = ctx.ok_edges(zl[0])
        starts = [ctx._edge_target(b, e) for e in some]
        ctx.add("2.every-fetched-item-served", "MPT", b.path(starts, [zl[0].bb], cut_blocks=[pushes[1].bb]) is None, "every fetched item is appended to the answer", sites=[pushes[1].where()], site_key="serve")
        ctx.add("2.fetched-after-cached-prefix", "ORDER", b.path([pushes[1].bb], [pushes[0].bb]) is None, "fetched items follow the cached prefix", sites=[c.where() for c in pushes], site_key="ord")
        noneb = [bb for bb, j, s in b.stmts() if bb in b.live and s["k"] == "assign" and s["rv"]["k"] == "agg" and s["rv"].get("adt") == "core::option::Option" and s["rv"]["variant"] == "None"]
        fo = ctx.discr_switches(b, "core::option::Option", "call:core::ops::function::Fn::call")
        none_t = [ctx._edge_target(b, (s_.bb, lab)) for s_ in fo for lab in s_.edge_for_value(0)]
        ctx.add("2.database-none-is-none", "PROV", bool(none_t) and b.path(none_t, [c.bb for c in pushes]) is None and b.path(none_t, noneb) is not None,
                "when the database has no data for the range the answer is None", sites=[fetch.where()], site_key="none")
        ctx.only_callers("2.cache-fill-sites", "quick_cache::sync::Cache::insert", [f"{CV}::get_from_cache_or_db"], CR)
        for fn, cache, dbm in (("get_sealed_headers", "sealed_block_headers", "get_sealed_headers"), ("get_transactions", "transactions_on_blocks", "get_transactions")):
            gb = F.unit(f"{CV}::{fn}").root
            c = ctx.one_call(gb, f"{CV}::get_from_cache_or_db")
            ctx.arg_origin(f"2.{fn}-cache", c, 1, f"field:{CV}.{cache}", depth=0)
            ctx.arg_origin(f"2.{fn}-db-method", c, 4, f"fnref:fuel_core_p2p::ports::P2pDb::{dbm}", depth=0)

    # -- 5. codec: a message within the size limit is read whole and decoded; nothing else rejects it --
    with ctx.clause("5.codec"):
        H = "fuel_core_p2p::codecs::request_response::RequestResponseMessageHandler"
        CODEC = "libp2p_request_response::codec::Codec"
        from core import decode_bool_test
        for fn in ("read_request", "read_response"):
            u = F.unit(f"<{H} as {CODEC}>::{fn}")
            v, cs = ctx.reach_calls([u], ["fuel_core_p2p"], max_depth=3, stop=["<* as fuel_core_p2p::codecs::Decode>::decode"])
            bodies = []
            for q, _ in v:
                for uu in F.units(q[0] if isinstance(q, tuple) else q):
                    bodies += uu.bodies
            bodies = list({id(x): x for x in bodies}.values())
            tk = [c for x in bodies for c in x.calls if c.bb in x.live and c.name == "take" and "AsyncReadExt" in c.path]
            rd = [c for x in bodies for c in x.calls if c.bb in x.live and c.name == "read_to_end"]
            dc = [c for x in bodies for c in x.calls if c.bb in x.live and c.is_path("fuel_core_p2p::codecs::Decode::decode")]
            ctx.expect_sites(f"5.{fn}-bounded-read", tk, exactly=1, what="socket.take(max_response_size)")
            ctx.expect_sites(f"5.{fn}-read-to-end", rd, exactly=1, what="read_to_end(&mut buffer)")
            ctx.expect_sites(f"5.{fn}-decode", dc, at_least=1, what="codec.decode(&buffer)")
            if tk and tk[0].body.unit == u.q:
                ctx.arg_origin(f"5.{fn}-limit-is-configured-size", tk[0], 1, f"field:{H}.max_response_size", depth=2)
            elif tk:
                # the bounded read lives in a helper: the limit handed to the helper must be the configured size
                hc = [c for x in u.bodies for c in x.calls if c.bb in x.live and (c.path == tk[0].body.unit or c.res == tk[0].body.unit)]
                okh = any(atom_match(Origins(c.body, 2).atoms(a), f"field:{H}.max_response_size") for c in hc for a in c.args)
                ctx.add(f"5.{fn}-limit-is-configured-size", "PROV", okh, f"the helper {tk[0].body.unit} is called with max_response_size", sites=[c.where() for c in hc], site_key=fn + ":helper")
            if tk and rd:
                ctx.arg_origin(f"5.{fn}-reads-the-bounded-stream", rd[0], 0, "call:futures_util::io::AsyncReadExt::take", depth=0)
            # the only rejections are a failed read or a failed decode: a comparison of the received length with the limit
            # may reject only strictly larger messages (take() already caps the read at the limit, so `>=` refuses a
            # message of exactly the allowed size)
            bad = []
            ntests = 0
            for x in bodies:
                o = Origins(x, 1)
                errs = x.error_blocks()
                for i in sorted(x.live):
                    t = x.blocks[i]["t"]
                    if t["k"] != "switch" or t.get("dt") != "bool":
                        continue
                    for test in decode_bool_test(x, o, t["d"]):
                        if test[0] != "cmp":
                            continue
                        _, rel, a, b_, flip = test
                        aa, ab = o.atoms(a), o.atoms(b_)
                        is_len = lambda s: any(k == "call" and str(n).endswith("::len") for k, n in s)
                        if not (is_len(aa) or is_len(ab)):
                            continue
                        ntests += 1
                        # normalise to  len REL other
                        r = rel if is_len(aa) else {"Lt": "Gt", "Gt": "Lt", "Le": "Ge", "Ge": "Le", "Eq": "Eq", "Ne": "Ne"}[rel]
                        from core import Switch
                        sw = Switch(x, i)
                        for truth in (True, False):
                            want = truth != flip
                            for lab in sw.edges_for_truth(want):
                                tb = ctx._edge_target(x, (i, lab))
                                rejects = x.path([tb], x.return_blocks(), cut_blocks=errs) is None
                                if rejects:
                                    eff = r if truth else {"Lt": "Ge", "Ge": "Lt", "Gt": "Le", "Le": "Gt", "Eq": "Ne", "Ne": "Eq"}[r]
                                    if eff != "Gt":
                                        bad.append(f"{x.defq} line {t.get('line')}: rejects when len {eff} limit")
            ctx.add(f"5.{fn}-no-rejection-at-the-limit", "GUARD", not bad, "a message whose length equals the limit is not refused (only `len > limit` may reject)" +
                    (": " + "; ".join(bad) if bad else f" ({ntests} length tests on the read path)"), sites=bad or [u.q], site_key=fn + ":limit")
        for fn in ("write_request", "write_response"):
            u = F.unit(f"<{H} as {CODEC}>::{fn}")
            enc = [c for x in u.bodies for c in x.calls if c.bb in x.live and c.is_path("fuel_core_p2p::codecs::Encode::encode")]
            wa = [c for x in u.bodies for c in x.calls if c.bb in x.live and c.name == "write_all"]
            ctx.expect_sites(f"5.{fn}-encode", enc, at_least=1, what="codec.encode(&message)")
            ctx.add(f"5.{fn}-writes-each-encoding", "PAIR", len(wa) == len(enc) and len(enc) >= 1, f"{len(enc)} encodings, {len(wa)} write_all calls", sites=[c.where() for c in wa], site_key=fn)
            for c in wa:
                ctx.arg_origin(f"5.{fn}-writes-encoded-bytes-L{wa.index(c)}", c, 1, "call:fuel_core_p2p::codecs::Encode::encode", depth=2)
        ru = F.unit(f"<{H} as {CODEC}>::read_response")
        wu = F.unit(f"<{H} as {CODEC}>::write_response")
        PR = "fuel_core_p2p::request_response::protocols::RequestResponseProtocol"
        for nm, u in (("read_response", ru), ("write_response", wu)):
            x = ctx.body_with(u, "fuel_core_p2p::codecs::Decode::decode" if nm == "read_response" else "fuel_core_p2p::codecs::Encode::encode")
            ctx.dispatch_total(f"5.{nm}-protocol-dispatch", x, PR)
            arms = ctx.match_arms(x, PR)
            conv = {v: [c for c in x.calls if c.bb in arms.get(v, ()) and c.name in ("into", "from")] for v in ("V1", "V2")}
            ctx.add(f"5.{nm}-v1-converts-v2-does-not", "MIRROR", len(conv["V1"]) == 1 and len(conv["V2"]) == 0,
                    "protocol V1 goes through the V1ResponseMessage conversion, V2 is (de)coded directly", sites=[c.where() for c in conv["V1"] + conv["V2"]], site_key=nm)
