"""C12 — historical views and rollbacks reproduce past state exactly (ordering clauses only; DESIGN §7 C12)."""
from core import AnchorMissing, Origins, atom_match, place_fields

LEVEL = "other"
EXPLANATION = """
Ordering / guard clauses of C12 in fuel_core::state::historical_rocksdb and fuel_core::database, for all
paths: (1) HistoricalRocksDB::commit_changes records history (store_modifications_history) exactly when
a height is given and the policy is not NoRewind, its ok-edge dominates the single backend commit, and
the data and the history travel in that one commit; store_modifications_history computes the reverse
changes (from the backend's current values: multi_get on self.db) before replacing the height's
ModificationsHistoryV2 entry and cleans old heights up through cleanup_old_changes;
reverse_history_changes distinguishes the four (was, became) cases; (2) rollback_block_to: a missing
history entry is an error; the taken changes are used both to drop the per-key history entries
(remove_historical_modifications — on every path, independently of the current rewind policy, because
the history on disk may come from an earlier run) and as the changes applied, all in one backend
commit; (3) Database::rollback_last_block moves the cached height only after rollback_block_to's
ok-edge, to height.rollback_height(); (4) create_view_at fails with NoHistoryForRequestedHeight unless a
history entry exists at h+1 or h; Database::view_at serves the latest view only for the cached height;
(5) cleanup_old_changes matches the policy without wildcard and, for RewindRange, a taken old entry is
always followed by the removal of its per-key history; (6) ViewAtHeight::get contains no slice-index /
bounds panic edge and recognises a history entry by exact `key || height` shape (defect D9, fixed).
"""
NOT_DECIDED = """That reverse diffs compose to the exact past state (value-level); behaviour across restarts
with a changed policy beyond clause 2 (observation D10)."""

CR = ["fuel_core"]
ST = "fuel_core::state"
H = f"{ST}::historical_rocksdb::HistoricalRocksDB"
HM = f"{ST}::historical_rocksdb"
R = f"{ST}::rocks_db::RocksDb"
GDB = "fuel_core::state::generic_database::GenericDatabase"
POLICY = f"{HM}::StateRewindPolicy"


def check(ctx):
    F = ctx.F
    with ctx.clause("1.commit-records-history"):
        b = F.unit(f"<{H} as {ST}::TransactableStorage>::commit_changes").root
        smh = ctx.one_call(b, f"{H}::store_modifications_history")
        commit = ctx.one_call(b, f"{R}::commit_changes")
        ctx.after_ok("1.commit-after-history-ok", smh, [commit]) if False else None
        ne = ctx.cmp_tests(b, "Ne", lhs=f"field:{H}.state_rewind_policy", rhs=f"agg:{POLICY}::NoRewind", depth=1) or ctx.rel_tests(b, "Ne")
        ctx.guarded("1.history-iff-policy", b, [smh], ne, truth=True)
        opt = ctx.discr_switches(b, "core::option::Option", "param:2")
        some_edges = [(s.bb, lab) for s in opt for lab in s.edge_for_value(1)]
        ctx.dominated("1.history-only-with-height", b, [smh], by_edges=some_edges)
        # with height and policy != NoRewind the commit is reached only through the history's ok-edge
        tedges = [(sw.bb, lab) for sw, pol in ne for lab in sw.edges_for_truth(True if pol else False)]
        oke, _ = ctx.ok_edges(smh)
        p = b.path([ctx._edge_target(b, e) for e in tedges], [commit.bb], cut_edges=set(oke)) if tedges and oke else [0]
        ctx.add("1.history-before-data-commit", "DOM", p is None, "when history is kept, the data is committed only after the history was recorded successfully",
                sites=[smh.where()], site_key="order", witness=None if p is None else {"path": b.describe_path(p)})
        ctx.expect_sites("1.single-backend-commit", b.calls_to(f"{R}::commit_changes"), exactly=1, what="backend commit in HistoricalRocksDB::commit_changes")
        ctx.arg_origin("1.history-and-data-in-one-commit", commit, 1, "call:fuel_core_storage::structured_storage::StructuredStorage::into_changes", depth=2)
        sb = ctx.body_with(f"{H}::store_modifications_history", f"{H}::reverse_history_changes")
        rev = ctx.one_call(sb, f"{H}::reverse_history_changes")
        rep = [c for c in ctx.table_ops("ModificationsHistoryVersion", CR, ops=("replace", "insert")) if c.body is sb and c.targs[-1].endswith(", 1>")]
        ctx.expect_sites("1.history-entry-write", rep, exactly=1, what="ModificationsHistoryV2.replace(height, reverse_changes)")
        ctx.after_ok("1.reverse-computed-before-stored", rev, rep)
        for c in rep:
            ctx.arg_origin("1.stored-entry-is-reverse-changes", c, 2, f"call:{H}::reverse_history_changes", depth=1)
            ctx.arg_origin("1.stored-under-commit-height", c, 1, "call:fuel_core::database::database_description::DatabaseHeight::as_u64", depth=1)
        cl = ctx.one_call(sb, f"{HM}::cleanup_old_changes")
        nor = ctx.rel_tests(sb, "Eq")
        nor = [(sw, pol) for sw, pol in nor if sb.path([sw.bb], [cl.bb]) is not None]
        keep = [ctx._edge_target(sb, (sw.bb, lab)) for sw, pol in nor for lab in sw.edges_for_truth(False if pol else True)]
        p = sb.path(keep, sb.return_blocks(), cut_blocks=[cl.bb] + list(sb.error_blocks())) if keep else [0]
        ctx.add("1.old-history-cleaned", "MPT", p is None, "whenever history is kept, old heights are cleaned up according to the policy", sites=[cl.where()], site_key="cleanup")
        rb = ctx.body_with(f"{H}::reverse_history_changes", f"{R}::multi_get")
        mg = ctx.one_call(rb, f"{R}::multi_get")
        ctx.arg_origin("1.old-values-from-backend", mg, 0, f"field:{H}.db")
        WO = "fuel_core_storage::kv_store::WriteOperation"
        ws = ctx.enum_switches(rb, WO)
        os_ = ctx.enum_switches(rb, "core::option::Option")
        ctx.add("1.was-became-cases", "DISPATCH", len(ws) >= 2 and len(os_) >= 1, f"(was, became) match: {len(os_)} Option switches x {len(ws)} WriteOperation switches",
                sites=[f"bb{bb}" for bb, _, _ in ws], site_key="cases")

    with ctx.clause("2.rollback_block_to"):
        b = ctx.body_with(f"{H}::rollback_block_to", f"{HM}::multiversion_take")
        take = ctx.one_call(b, f"{HM}::multiversion_take")
        rm = b.calls_to(f"{HM}::remove_historical_modifications")
        commit = ctx.one_call(b, f"{R}::commit_changes")
        errs = b.error_blocks()
        bad, _ = ctx.ok_edges(take, polarity="bad", extra_transparent=("core::option::Option::ok_or",))
        ctx.add("2.missing-history-rejects", "REJECT", bool(bad) and all(b.path([ctx._edge_target(b, e)], b.return_blocks(), cut_blocks=errs) is None for e in bad),
                "rolling back a height without a history entry is an error", sites=[take.where()], site_key="none")
        ctx.must_pass("2.per-key-history-always-removed", b, rm, detail="the per-key history of the rolled-back height is removed on every successful rollback (whatever the current policy)")
        for c in rm:
            ctx.arg_origin("2.removal-uses-taken-changes", c, 2, f"call:{HM}::multiversion_take", depth=1)
            ctx.after_ok("2.remove-after-take", take, [c], extra_transparent=("core::option::Option::ok_or",))
        tr = ctx.one_call(b, "fuel_core_storage::structured_storage::StructuredStorage::transaction")
        ctx.arg_origin("2.applied-changes-are-taken-changes", tr, 2, f"call:{HM}::multiversion_take", depth=1)
        ctx.expect_sites("2.single-commit", b.calls_to(f"{R}::commit_changes"), exactly=1, what="backend commit in rollback_block_to")
        ctx.dominated("2.commit-after-history-removal", b, [commit], by_blocks=rm)
        ctx.must_pass("2.rollback-commits", b, [commit])

    with ctx.clause("3.database-rollback"):
        HF = "field:fuel_core::database::RegularStage.height"
        rb = ctx.body_with(f"{GDB}::rollback_last_block", f"{ST}::TransactableStorage::rollback_block_to")
        rc = ctx.one_call(rb, f"{ST}::TransactableStorage::rollback_block_to")
        ws = ctx.deref_writes(rb, HF, depth=2)
        ctx.expect_sites("3.height-write", [s.get("line") for _, s in ws], exactly=1, what="cached-height write in rollback_last_block")
        ctx.after_ok("3.height-moves-only-after-rollback-ok", rc, [bb for bb, _ in ws], detail="a failed storage rollback leaves the reported height unchanged")
        for bb, s in ws:
            at = Origins(rb, 1).atoms(s["rv"]["op"]) if s["rv"]["k"] == "use" else set()
            ctx.add("3.height-value", "PROV", atom_match(at, "call:fuel_core::database::database_description::DatabaseHeight::rollback_height"),
                    "the cached height becomes height.rollback_height()", sites=[str(s.get("line"))], site_key="v")
        ctx.arg_origin("3.rollback-the-cached-height", rc, 1, "call:lock_api::mutex::Mutex::lock", depth=1)

    with ctx.clause("4.views"):
        b = ctx.body_with(f"{H}::create_view_at", f"{HM}::multiversion_contains")
        cs = b.calls_to(f"{HM}::multiversion_contains")
        ctx.expect_sites("4.two-contains-checks", cs, exactly=2, what="multiversion_contains(h+1) and (h)")
        oks = ctx.ok_return_blocks(b)
        tests = ctx.value_tests(b, f"call:{HM}::multiversion_contains")
        ctx.expect_sites("4.contains-tests", [f"bb{sw.bb}" for sw, _ in tests], at_least=2, what="tests of the contains results")
        last = sorted(tests, key=lambda t: t[0].bb)[-1:]
        ctx.guarded("4.view-only-with-history", b, oks, last, truth=True, detail="without a history entry at h+1 or h the view fails with NoHistoryForRequestedHeight")
        add = ctx.one_call(b, "u64::saturating_add")
        ctx.const_arg("4.rollback-height-is-h-plus-one", add, 1, 1)
        vn = ctx.one_call(b, f"{HM}::view_at_height::ViewAtHeight::new")
        ctx.arg_origin("4.view-at-h-plus-one", vn, 0, "call:u64::saturating_add", depth=0)
        vb = ctx.body_with(f"<{GDB} as fuel_core_storage::transactional::HistoricalView>::view_at", f"{ST}::TransactableStorage::view_at_height")
        va = ctx.one_call(vb, f"{ST}::TransactableStorage::view_at_height")
        lv = vb.calls_to(f"{GDB}::latest_view_with_height")
        ctx.expect_sites("4.latest-view-shortcuts", lv, exactly=2, what="latest-view shortcuts (no height / current height)")
        eq = ctx.rel_tests(vb, "Eq")
        ctx.expect_sites("4.current-height-test", [f"bb{sw.bb}" for sw, _ in eq], at_least=1, what="`current_height == height` test")

    with ctx.clause("5.cleanup"):
        b = F.unit(f"{HM}::cleanup_old_changes").root
        ctx.dispatch_total("5.policy-dispatch", b, POLICY)
        arms = ctx.match_arms(b, POLICY)
        take = [c for c in ctx.table_ops("ModificationsHistoryVersion", CR, ops=("take",)) if c.body is b and c.targs[-1].endswith(", 1>")]
        ctx.expect_sites("5.old-entry-take", take, exactly=1, what="take(old_height)")
        ctx.add("5.take-in-range-arm", "DISPATCH", bool(take) and take[0].bb in arms.get("RewindRange", set()), "old entries are dropped only under RewindRange",
                sites=[c.where() for c in take], site_key="arm")
        rm = b.calls_to(f"{HM}::remove_historical_modifications")
        for c in take:
            osw = ctx.discr_switches(b, "core::option::Option", "call:fuel_storage::StorageMut::take")
            ctx.paired("5.taken-entry-history-removed", c, rm, from_edges=[(s_.bb, lab) for s_ in osw for lab in s_.edge_for_value(1)],
                       detail="a dropped history entry also drops its per-key history")
        sub = ctx.one_call(b, "u64::saturating_sub")
        for c in take:
            ctx.arg_origin("5.old-height", c, 1, "call:u64::saturating_sub", depth=1)

    with ctx.clause("6.view-read-total"):
        V = f"{HM}::view_at_height::ViewAtHeight"
        b = F.unit(f"<{V} as fuel_core_storage::kv_store::KeyValueInspect>::get").root
        panics = []
        for i in sorted(b.live):
            t = b.blocks[i]["t"]
            if t["k"] == "assert" and t["msg"].get("k") in ("bounds", "overflow", "div_zero", "rem_zero"):
                panics.append(f"assert {t['msg'].get('k')} line {t.get('line')}")
        for c in b.calls:
            if c.bb in b.live and (c.path in ("core::ops::index::Index::index", "core::ops::index::IndexMut::index_mut", "core::option::Option::unwrap", "core::result::Result::unwrap",
                                              "core::option::Option::expect", "core::result::Result::expect") or c.path.startswith("core::panicking::")):
                panics.append(f"{c.path} line {c.line}")
        ctx.add("6.no-panic-edge", "NOPANIC", not panics, "ViewAtHeight::get has no indexing / unwrap / arithmetic panic edge" + (f": {panics}" if panics else ""),
                sites=panics or [f"{b.file}:{b.line}"], site_key="get")
        sw = b.calls_to("core::slice::<impl [T]>::starts_with", "[T]::starts_with")
        ln = ctx.rel_tests(b, "Eq")
        ctx.add("6.exact-entry-shape", "GUARD", bool(sw) and bool(ln), "a history entry is attributed to the key only if it has the exact length and starts with the key",
                sites=[c.where() for c in sw], site_key="shape")
        orig = [c for c in b.calls if c.bb in b.live and c.path == "fuel_core_storage::kv_store::KeyValueInspect::get"]
        ctx.expect_sites("6.fallback-to-original-column", orig, exactly=1, what="fallback read of the original column")
