"""C36 — off-chain indexes agree with the on-chain state (DESIGN §7 C36)."""
from core import AnchorMissing, Origins, atom_match
from rules import TABLE_WRITE_FNS

LEVEL = "other"
EXPLANATION = """
Dispatch-symmetry clauses of C36 in fuel_core::graphql_api, for all paths: (1) the three indexers
(worker_service::process_executor_events, indexation::balances::update,
indexation::coins_to_spend::update) match executor::Event without wildcard and per variant perform
the reviewed table operation / call (imported -> add, consumed -> remove, created -> add,
consumed -> remove); (2) balances: CoinBalances and MessageBalances are written only by `insert`
in the four increase_/decrease_ functions (an entry is never removed, both components of a message
balance live in one entry); increase uses saturating_add, decrease uses checked_sub whose None is an
error; the component is chosen by is_retryable_message() and the untouched component is carried over
from the value read; every success path of the four functions writes the entry back;
(3) coins_to_spend: add_* uses replace with `is_some` => error, remove_* uses take with `is_none` =>
error, on the same table with keys from the same constructor, and every successful return of add_* / remove_*
has passed that index operation (no resource is left out by an early return); (5) in process_executor_events
every non-error way out of a variant's arm (next event or return) has passed each of the arm's index
operations; (4) error discipline in
process_executor_events: every event passes update_event_based_indexation, an
IndexationError::StorageError aborts the block (error exit), and every table write's error propagates.
"""
NOT_DECIDED = """Numeric equality with the on-chain sums; that the executor emits the right events is C02."""

CR = ["fuel_core"]
EVENT = "fuel_core_types::services::executor::Event"
WS = "fuel_core::graphql_api::worker_service"
BAL = "fuel_core::graphql_api::indexation::balances"
CTS = "fuel_core::graphql_api::indexation::coins_to_spend"
IERR = "fuel_core::graphql_api::indexation::error::IndexationError"


def tops(ctx, body, reads=False):
    from rules import TABLE_READ_FNS
    fns = TABLE_READ_FNS if reads else TABLE_WRITE_FNS
    out = []
    for c in body.calls:
        if c.bb in body.live and c.path in fns and c.targs:
            out.append((c.targs[-1].split("<")[0].rsplit("::", 1)[-1], fns[c.path], c))
    return out


def check(ctx):
    F = ctx.F
    with ctx.clause("1.dispatch"):
        pb = F.unit(f"{WS}::process_executor_events").root
        ctx.dispatch_total("1.worker-dispatch", pb, EVENT)
        arms = ctx.match_arms(pb, EVENT)
        want = {"MessageImported": {("OwnedMessageIds", "insert")}, "MessageConsumed": {("OwnedMessageIds", "remove"), ("SpentMessages", "insert")},
                "CoinCreated": {("OwnedCoins", "insert")}, "CoinConsumed": {("OwnedCoins", "remove")},
                "ForcedTransactionFailed": {("RelayedTransactionStatuses", "insert")}}
        allops = tops(ctx, pb)
        for v, exp in want.items():
            got = {(t, o) for (t, o, c) in allops if c.bb in arms.get(v, set())}
            ctx.add(f"1.worker-{v}", "DISPATCH", got == exp, f"Event::{v}: {sorted(got)} (expected {sorted(exp)})", sites=sorted(map(str, got)), site_key=v)
        for mod, table in ((BAL, {"MessageImported": "increase_message_balance", "MessageConsumed": "decrease_message_balance",
                                  "CoinCreated": "increase_coin_balance", "CoinConsumed": "decrease_coin_balance"}),
                           (CTS, {"MessageImported": "add_message", "MessageConsumed": "remove_message", "CoinCreated": "add_coin", "CoinConsumed": "remove_coin"})):
            ub = F.unit(f"{mod}::update").root
            short = mod.rsplit("::", 1)[-1]
            ctx.dispatch_total(f"1.{short}-dispatch", ub, EVENT)
            arms = ctx.match_arms(ub, EVENT)
            for v, fn in table.items():
                got = {c.path.rsplit("::", 1)[-1] for c in ub.calls if c.bb in arms.get(v, set()) and c.path.startswith(mod + "::")}
                ctx.add(f"1.{short}-{v}", "DISPATCH", got == {fn}, f"{short}: Event::{v} -> {sorted(got)} (expected {fn})", sites=sorted(got), site_key=f"{short}:{v}")
            for fn in table.values():
                ctx.only_callers(f"1.{short}-{fn}-callers", f"{mod}::{fn}", [f"{mod}::update"], CR)

    with ctx.clause("2.balances"):
        for table in ("CoinBalances", "MessageBalances"):
            kind = "coin" if table == "CoinBalances" else "message"
            ctx.only_table_writers(f"2.{table}-writers", table, {f"{BAL}::increase_{kind}_balance": {"insert"}, f"{BAL}::decrease_{kind}_balance": {"insert"}}, CR,
                                   detail="balance entries are only ever rewritten (never removed)")
        for fn, arith, klass in (("increase_coin_balance", "u128::saturating_add", "add"), ("increase_message_balance", "u128::saturating_add", "add"),
                                 ("decrease_coin_balance", "u128::checked_sub", "sub"), ("decrease_message_balance", "u128::checked_sub", "sub")):
            b = F.unit(f"{BAL}::{fn}").root
            ins = [c for (t, o, c) in tops(ctx, b) if o == "insert"]
            gets = [c for (t, o, c) in tops(ctx, b, reads=True) if o == "get"]
            ctx.expect_sites(f"2.{fn}-read", gets, exactly=1, what="read of the current balance")
            ctx.expect_sites(f"2.{fn}-write", ins, exactly=1, what="write of the new balance")
            ctx.must_pass(f"2.{fn}-always-writes-back", b, ins, detail="every successful update writes the entry back")
            ar = b.calls_to(arith)
            ctx.expect_sites(f"2.{fn}-arithmetic", ar, at_least=1, what=arith)
            other = b.calls_to("u128::wrapping_add", "u128::wrapping_sub", "u128::saturating_sub") if klass == "sub" else b.calls_to("u128::wrapping_add", "u128::checked_sub", "u128::saturating_sub")
            ctx.expect_sites(f"2.{fn}-no-other-arithmetic", other, exactly=0, what="other arithmetic on the balance")
            for c in ins:
                ctx.arg_origin(f"2.{fn}-new-value-from-arithmetic", c, 2, f"call:{arith}", depth=1)
                ctx.arg_origin(f"2.{fn}-new-value-from-current", c, 2, "call:fuel_storage::StorageRef::get" if gets and gets[0].path.endswith("StorageRef::get") else f"call:{gets[0].path}" if gets else "call:?", depth=2)
            if klass == "sub":
                errs = b.error_blocks()
                for c in ar:
                    bad, _ = ctx.ok_edges(c, polarity="bad", extra_transparent=("core::option::Option::ok_or_else", "core::option::Option::ok_or"))
                    ctx.add(f"2.{fn}-underflow-rejects", "REJECT", bool(bad) and all(b.path([ctx._edge_target(b, e)], b.return_blocks(), cut_blocks=errs) is None for e in bad),
                            "a balance underflow is an error (no wrap / clamp)", sites=[c.where()], site_key=fn)
            if "message" in fn:
                sel = ctx.call_tests(b, "fuel_core_types::entities::relayer::message::Message::is_retryable_message")
                ctx.expect_sites(f"2.{fn}-component-choice", [f"bb{sw.bb}" for sw, _ in sel], at_least=1, what="is_retryable_message() selects the component")
                MB = "fuel_core::graphql_api::storage::balances::MessageBalance"
                aggs = [s for bb, j, s in b.stmts() if bb in b.live and s["k"] == "assign" and s["rv"]["k"] == "agg" and s["rv"].get("adt") == MB]
                ctx.expect_sites(f"2.{fn}-balance-aggregates", [s.get("line") for s in aggs], at_least=1, what="MessageBalance { retryable, non_retryable }")
                o = Origins(b, 2)
                for i, s in enumerate(aggs):
                    f = s["rv"]["fields"]
                    ats = {n: o.atoms(s["rv"]["ops"][f.index(n)]) for n in ("retryable", "non_retryable")}
                    carried = all(atom_match(a, [f"call:{g.path}" for g in gets]) for a in ats.values())
                    ctx.add(f"2.{fn}-both-components-carried-{i}", "FIELDCOV", carried, "both components of the entry derive from the value read (the untouched one is preserved)",
                            sites=[str(s.get("line"))], site_key=f"{fn}:{i}")

    with ctx.clause("3.coins-to-spend"):
        for add, rem in (("add_coin", "remove_coin"), ("add_message", "remove_message")):
            ab, rb = F.unit(f"{CTS}::{add}").root, F.unit(f"{CTS}::{rem}").root
            aops, rops = tops(ctx, ab), tops(ctx, rb)
            ctx.add(f"3.{add}-replace", "MIRROR", {(t, o) for t, o, c in aops} == {("CoinsToSpendIndex", "replace")}, f"{add}: {sorted((t, o) for t, o, c in aops)}", sites=[c.where() for _, _, c in aops], site_key=add)
            ctx.add(f"3.{rem}-take", "MIRROR", {(t, o) for t, o, c in rops} == {("CoinsToSpendIndex", "take")}, f"{rem}: {sorted((t, o) for t, o, c in rops)}", sites=[c.where() for _, _, c in rops], site_key=rem)
            ctx.test_leads_to_error(f"3.{add}-duplicate-rejects", ab, ctx.call_tests(ab, "core::option::Option::is_some"), truth=True)
            ctx.test_leads_to_error(f"3.{rem}-missing-rejects", rb, ctx.call_tests(rb, "core::option::Option::is_none"), truth=True)
            # no early success: an unspent resource is always entered, a spent one always taken out
            ctx.must_pass(f"3.{add}-always-enters-the-index", ab, [c for _, _, c in aops], detail=f"every successful return of {add} has passed the index write (no resource is left out)")
            ctx.must_pass(f"3.{rem}-always-leaves-the-index", rb, [c for _, _, c in rops], detail=f"every successful return of {rem} has passed the index removal")
            ka = [c.path for c in ab.calls if c.bb in ab.live and "CoinsToSpendIndexKey::from_" in c.path]
            kr = [c.path for c in rb.calls if c.bb in rb.live and "CoinsToSpendIndexKey::from_" in c.path]
            ctx.add(f"3.{add}-{rem}-same-key", "MIRROR", bool(ka) and ka == kr, f"same key constructor on both sides: {ka} / {kr}", sites=ka + kr, site_key=add + rem)
        ctx.only_table_writers("3.index-writers", "CoinsToSpendIndex", {f"{CTS}::add_coin": {"replace"}, f"{CTS}::add_message": {"replace"},
                                                                         f"{CTS}::remove_coin": {"take"}, f"{CTS}::remove_message": {"take"}}, CR, min_sites=4)

    with ctx.clause("4.error-discipline"):
        pb = F.unit(f"{WS}::process_executor_events").root
        upd = ctx.one_call(pb, f"{WS}::update_event_based_indexation")
        nxt = ctx.one_call(pb, "core::iter::traits::iterator::Iterator::next")
        some, _ = ctx.ok_edges(nxt)
        starts = [ctx._edge_target(pb, e) for e in some]
        ctx.add("4.every-event-indexed", "MPT", bool(starts) and pb.path(starts, [nxt.bb], cut_blocks=[upd.bb]) is None,
                "every executor event goes through update_event_based_indexation", sites=[upd.where()], site_key="each")
        sws = ctx.enum_switches(pb, IERR)
        ctx.expect_sites("4.storage-error-arm", [f"bb{bb}" for bb, _, _ in sws], at_least=1, what="match on IndexationError in process_executor_events")
        errs = pb.error_blocks()
        idx = ctx.variant_index(IERR, "StorageError")
        ts = [ctx._edge_target(pb, (bb, lab)) for (bb, sw, _) in sws for lab in sw.edge_for_value(idx)]
        ctx.add("4.storage-error-aborts-block", "REJECT", bool(ts) and pb.path(ts, pb.return_blocks() + [nxt.bb], cut_blocks=errs) is None,
                "a storage error during indexation aborts the block (it is not committed half-indexed)", sites=[f"bb{bb}" for bb, _, _ in sws], site_key="se")
        for t, o, c in tops(ctx, pb):
            bad, _ = ctx.ok_edges(c, polarity="bad")
            ctx.add(f"4.{t}-{o}-error-propagates-bb{c.bb}", "REJECT", bool(bad) and all(pb.path([ctx._edge_target(pb, e)], pb.return_blocks() + [nxt.bb], cut_blocks=errs) is None for e in bad),
                    f"an error of {t}.{o} propagates", sites=[c.where()], site_key=f"{t}{o}{c.bb}")
        ub = F.unit(f"{WS}::update_event_based_indexation").root
        oks = ctx.ok_return_blocks(ub)
        for callee in (f"{BAL}::update", f"{CTS}::update"):
            ctx.after_ok(f"4.{callee.split('::')[-2]}-error-propagates", ctx.one_call(ub, callee), oks)

    # -- 5. no event is skipped inside its arm: every non-error way out of the arm has applied each index operation --
    with ctx.clause("5.arm-operations-on-every-path"):
        pb = F.unit(f"{WS}::process_executor_events").root
        nxt = ctx.one_call(pb, "core::iter::traits::iterator::Iterator::next")
        want = {"MessageImported": {("OwnedMessageIds", "insert")}, "MessageConsumed": {("OwnedMessageIds", "remove"), ("SpentMessages", "insert")},
                "CoinCreated": {("OwnedCoins", "insert")}, "CoinConsumed": {("OwnedCoins", "remove")},
                "ForcedTransactionFailed": {("RelayedTransactionStatuses", "insert")}}
        allops = tops(ctx, pb)
        sws = ctx.enum_switches(pb, EVENT)
        ctx.expect_sites("5.event-match", [f"bb{bb}" for bb, _, _ in sws], at_least=1, what="match on executor::Event in process_executor_events")
        errs = pb.error_blocks()
        arms = ctx.match_arms(pb, EVENT)
        for v, exp in want.items():
            idx = ctx.variant_index(EVENT, v)
            ts = [ctx._edge_target(pb, (bb, lab)) for (bb, sw, _) in sws for lab in sw.edge_for_value(idx)]
            for (t, o) in sorted(exp):
                blocks = [c.bb for (t2, o2, c) in allops if (t2, o2) == (t, o) and c.bb in arms.get(v, set())]
                ok = bool(ts) and bool(blocks) and pb.path(ts, pb.return_blocks() + [nxt.bb], cut_blocks=set(errs) | set(blocks)) is None
                ctx.add(f"5.{v}-{t}-{o}-on-every-path", "MPT", ok, f"Event::{v}: every non-error way out of the arm (next event or return) has passed {t}.{o}",
                        sites=[f"bb{b}" for b in blocks], site_key=f"{v}:{t}:{o}")
