"""C41 — services start and stop cleanly under any interleaving (DESIGN §7 C41)."""
from core import AnchorMissing, Origins, atom_match, place_fields

LEVEL = "other"
EXPLANATION = """
Schedule-independent structural invariants of fuel_core_services::service, for all paths:
(1) the State watch channel of ServiceRunner is modified only inside closures passed to
send_if_modified (never send / send_replace / send_modify); (2) the transition table extracted
from those closures — for each `*state = X` write, the set of states from which the write is
reachable given the guard predicates (not_started / starting / started / stopping / stopped) —
contains only strictly forward pairs in NotStarted < Starting < Started < Stopping < Stopped*;
(3) into_task is reached only on the `starting()` true edge, RunnableTask::run only while
`started()`, shutdown has exactly one call site reached after the run loop, shutdown_task is
called once; (4) the spawned task publishes a stopped state after catch_unwind(run) on every path
(so every await for stop returns), and _await_stop loops until `stopped()`.
"""
NOT_DECIDED = """Scheduler interleavings themselves (the clauses are invariants that hold for every
interleaving); the watch channel's own memory ordering."""

CR = ["fuel_core_services"]
STATE = "fuel_core_services::state::State"
SVC = "fuel_core_services::service"
RANK = {"NotStarted": 0, "Starting": 1, "Started": 2, "Stopping": 3, "Stopped": 4, "StoppedWithError": 4}
PRED = {"not_started": {"NotStarted"}, "starting": {"Starting"}, "started": {"Started"}, "stopping": {"Stopping"},
        "stopped": {"Stopped", "StoppedWithError"}}


def state_writes(body):
    out = []
    for bb, j, s in body.stmts():
        if bb in body.live and s["k"] == "assign" and s["pl"].get("p") == ["*"] and STATE in body.local_ty(s["pl"]["l"]):
            out.append((bb, s))
    return out


def to_variants(F, body, unit, s):
    rv = s["rv"]
    if rv["k"] == "agg" and rv.get("adt") == STATE:
        return {rv["variant"]}
    o = Origins(body, 1)
    at = o.atoms(rv["op"]) if rv["k"] == "use" else set()
    vs = {a[1].rsplit("::", 1)[-1] for a in at if a[0] == "agg" and a[1].startswith(STATE + "::")}
    ups = [a[1] for a in at if a[0] == "upvar"]
    for name in ups:
        for pb in unit.bodies:
            if pb is body:
                continue
            for l in pb.locals_named(name):
                pat = Origins(pb, 1).atoms({"k": "copy", "l": l})
                vs |= {a[1].rsplit("::", 1)[-1] for a in pat if a[0] == "agg" and a[1].startswith(STATE + "::")}
    return vs


def from_variants(ctx, body, wbb):
    tests = []
    for name, accepts in PRED.items():
        for sw, pol in ctx.call_tests(body, f"{STATE}::{name}"):
            tests.append((sw, pol, accepts))
    out = set()
    for v in RANK:
        cut = set()
        for sw, pol, accepts in tests:
            truth = (v in accepts)
            # edges taken when the predicate has the *other* truth value are infeasible for v
            for lab in sw.edges_for_truth((not truth) if pol else truth):
                cut.add((sw.bb, lab))
        if body.path([0], [wbb], cut_edges=cut) is not None:
            out.add(v)
    return out, tests


def check(ctx):
    F = ctx.F
    with ctx.clause("1.only-guarded-updates"):
        bad = ctx.call_sites(["tokio::sync::watch::Sender::send", "tokio::sync::watch::Sender::send_replace",
                              "tokio::sync::watch::Sender::send_modify"], CR, targ="state::State")
        bad = [c for c in bad if "/service.rs" in c.body.file]
        ctx.expect_sites("1.no-unguarded-send", bad, exactly=0, what="unconditional sends on the service State channel")
        sims = [c for c in ctx.call_sites("tokio::sync::watch::Sender::send_if_modified", CR, targ="state::State") if hasattr(c, "args")]
        ctx.expect_sites("1.guarded-update-sites", sims, exactly=4, what="send_if_modified sites (start, stop, run, initialize_loop)")

    with ctx.clause("2.transition-table"):
        sims = [c for c in ctx.call_sites("tokio::sync::watch::Sender::send_if_modified", CR, targ="state::State") if hasattr(c, "args")]
        table = []
        for c in sorted(sims, key=lambda c: (c.body.defq, c.bb)):
            unit = [u for u in F.units(c.body.unit, crate="fuel_core_services") if c.body in u.bodies][0]
            at = Origins(c.body, 0).atoms(c.args[1])
            cl = [a[1] for a in at if a[0] == "closure"]
            if len(cl) != 1:
                ctx.add("2.closure-resolved", "ANCHOR", False, f"cannot resolve the closure passed to send_if_modified at {c.where()}", site_key=c.body.defq)
                continue
            cb = [b for b in unit.bodies if b.defq == cl[0]]
            if not cb:
                ctx.add("2.closure-resolved", "ANCHOR", False, f"closure body {cl[0]} not found", site_key=c.body.defq)
                continue
            cb = cb[0]
            ws = state_writes(cb)
            fn = c.body.unit.split("::")[-1]
            ctx.expect_sites(f"2.{fn}-state-write", [f"{cb.file}:{s.get('line')}" for _, s in ws], exactly=1, what=f"state write in the {fn} update closure")
            for bb, s in ws:
                tos = to_variants(F, cb, unit, s)
                froms, tests = from_variants(ctx, cb, bb)
                pairs = [(f, t) for f in sorted(froms) for t in sorted(tos)]
                table.append((fn, sorted(froms), sorted(tos)))
                backward = [(f, t) for (f, t) in pairs if RANK[f] >= RANK[t]]
                ok = bool(tos) and bool(tests) and not backward
                ctx.add(f"2.{fn}-forward-only", "TRANSITION", ok,
                        f"{fn}: {sorted(froms)} -> {sorted(tos)}" + (f"; non-forward pairs {backward}" if backward else ""),
                        sites=[f"{cb.file}:{s.get('line')}"], site_key=fn,
                        witness=None if ok else {"from": sorted(froms), "to": sorted(tos), "backward": backward})
        ctx.add("2.table-size", "COUNT", len(table) == 4, f"transition table: {table}", sites=[str(t) for t in table], site_key="table")
        # State::stopped() accepts exactly the two stopped variants
        sb = F.unit(f"{STATE}::stopped").root
        sws = ctx.enum_switches(sb, STATE)
        vals = set()
        names = ctx.variants(STATE)
        for (bb, sw, _) in sws:
            for v, t in sw.term["arms"]:
                if sb.path([t], sb.return_blocks()) is not None:
                    vals.add(names[v])
        ctx.add("2.stopped-predicate", "DISPATCH", vals == {"Stopped", "StoppedWithError"}, f"State::stopped matches {sorted(vals)}", sites=sorted(vals), site_key="stopped")
        ctx.add("2.state-variants", "COUNT", set(names) == set(RANK), f"State variants {names}", sites=names, site_key="variants")

    with ctx.clause("3.run-discipline"):
        rb = ctx.body_with(f"{SVC}::run", f"{SVC}::RunnableService::into_task")
        it = ctx.one_call(rb, f"{SVC}::RunnableService::into_task")
        st = ctx.call_tests(rb, f"{STATE}::starting")
        ctx.guarded("3.init-only-when-starting", rb, [it], st, truth=True, detail="a stopped / stopping service never initialises its task")
        rt = ctx.one_call(rb, f"{SVC}::run_task")
        sd = ctx.one_call(rb, f"{SVC}::shutdown_task")
        ctx.dominated("3.shutdown-after-run-loop", rb, [sd], by_blocks=[rt])
        ctx.paired("3.run-loop-then-shutdown", rt, [sd], on="any", exits="all")
        ctx.only_callers("3.shutdown_task-callers", f"{SVC}::shutdown_task", [f"{SVC}::run"], CR)
        ctx.only_callers("3.shutdown-callers", f"{SVC}::RunnableTask::shutdown", [f"{SVC}::shutdown_task"], CR)
        ctx.expect_sites("3.single-shutdown-site", ctx.call_sites(f"{SVC}::RunnableTask::shutdown", CR), exactly=1, what="RunnableTask::shutdown call sites")
        tb = ctx.body_with(f"{SVC}::run_task", f"{SVC}::RunnableTask::run")
        started = ctx.call_tests(tb, f"{STATE}::started")
        ctx.guarded("3.task-runs-only-while-started", tb, tb.calls_to(f"{SVC}::RunnableTask::run"), started, truth=True)
        ctx.only_callers("3.run-callers", f"{SVC}::RunnableTask::run", [f"{SVC}::run_task"], CR)
        ctx.only_callers("3.into_task-callers", f"{SVC}::RunnableService::into_task", [f"{SVC}::run"], CR)

    with ctx.clause("4.stop-is-published"):
        ib = ctx.body_with(f"{SVC}::initialize_loop", "tokio::sync::watch::Sender::send_if_modified")
        run = ctx.one_call(ib, f"{SVC}::run")
        cu = ib.calls_to("futures_util::future::future::FutureExt::catch_unwind")
        ctx.expect_sites("4.run-panics-caught", cu, exactly=1, what="catch_unwind around run")
        sim = ctx.one_call(ib, "tokio::sync::watch::Sender::send_if_modified")
        ctx.paired("4.always-publishes-stopped", cu[0], [sim], on="any", exits="all",
                   detail="every exit of the spawned task (normal or panic) publishes a stopped state")
        ab = ctx.body_with(f"{SVC}::ServiceRunner::_await_stop", f"{STATE}::stopped")
        stp = ctx.call_tests(ab, f"{STATE}::stopped")
        ctx.expect_sites("4.await-stop-tests-stopped", [f"bb{sw.bb}" for sw, _ in stp], at_least=1, what="stopped() test in _await_stop")
