"""C42 — sequence-lock readers only see complete, recent values (DESIGN §7 C42): protocol shape + single-writer typing."""
from core import AnchorMissing, Origins, atom_match

LEVEL = "other"
EXPLANATION = """
Protocol shape of fuel_core_services::seqlock, for all control-flow paths (not thread schedules):
(1) SeqLockWriter::write: sequence.fetch_add(1, AcqRel) then fence(Acquire) dominate the catch_unwind
that contains the only access to the data cell; fence(Release) then sequence.fetch_add(1, Release)
follow it on every path, including the path that re-raises a caught panic (the second increment
dominates resume_unwind), so the counter is odd exactly while the cell is being written and returns to
even whatever the closure does; both increments add the constant 1 to the `sequence` field;
(2) SeqLockReader::read: the data read is dominated by a `sequence.load(Acquire)` (start) and a
fence(Acquire) and followed by fence(Acquire) and a second `sequence.load(Acquire)` (end) before any
return; the only return is guarded by `start == end` and `start` even, and the returned value is the
copy made between the two loads; an odd start never reaches the data read; every failed check loops
back to a *new* start load; (3) the data cell (`UnsafeCell::get`) is touched only in those two
functions and the sequence counter is modified only in write; (4) single writer: SeqLockWriter is not
Clone and not Sync (type-level: trait-impl facts — no Clone impl, a !Sync marker field —) so that
`write(&self)` cannot be entered by two threads at once; readers are Clone.
"""
NOT_DECIDED = """The memory-model argument itself (that these orderings suffice under every interleaving) is a model-checking question
and is not explored; torn reads of values wider than a cache line."""

SL = "fuel_core_services::seqlock"
W = f"{SL}::SeqLockWriter"
R = f"{SL}::SeqLockReader"
FA = ("core::sync::atomic::Atomic::fetch_add", "core::sync::atomic::AtomicU64::fetch_add")
LD = ("core::sync::atomic::Atomic::load", "core::sync::atomic::AtomicU64::load")
FENCE = "core::sync::atomic::fence"
CR = ["fuel_core_services"]


def ordering(body, call, idx):
    at = Origins(body, 0).atoms(call.args[idx])
    return sorted(str(v).split("::")[-1] for k, v in at if k == "agg" and "Ordering" in str(v))


def check(ctx):
    F = ctx.F
    with ctx.clause("1.writer-shape"):
        u = F.unit(f"{W}::write")
        b = u.root
        fa = sorted([c for c in b.calls_to(*FA) if c.bb in b.live], key=lambda c: c.bb)
        ctx.expect_sites("1.two-increments", fa, exactly=2, what="sequence.fetch_add")
        cu = ctx.one_call(b, "std::panic::catch_unwind")
        fences = sorted([c for c in b.calls_to(FENCE) if c.bb in b.live], key=lambda c: c.bb)
        ctx.expect_sites("1.two-fences", fences, exactly=2, what="fence")
        first = [c for c in fa if b.path([c.target], [cu.bb]) is not None]
        second = [c for c in fa if b.path([cu.target], [c.bb]) is not None]
        ctx.add("1.one-increment-each-side", "ORDER", len(first) == 1 and len(second) == 1 and first[0] is not second[0], "one increment before and one after the write section",
                sites=[c.where() for c in fa], site_key="sides")
        f1, f2 = first[0], second[0]
        ctx.dominated("1.begin-increment-before-write-section", b, [cu], by_blocks=[f1])
        ctx.must_pass("1.end-increment-on-every-exit", b, [f2], exits="all", detail="the counter is made even again on every path that leaves write()", start=[cu.target])
        ru = [c for c in b.calls if c.bb in b.live and c.name == "resume_unwind"]
        ctx.expect_sites("1.panic-is-resumed", ru, exactly=1, what="resume_unwind(e)")
        ctx.dominated("1.end-increment-before-resuming-a-panic", b, ru, by_blocks=[f2])
        ctx.const_arg("1.begin-increment-by-1", f1, 1, 1)
        ctx.const_arg("1.end-increment-by-1", f2, 1, 1)
        for nm, c in (("begin", f1), ("end", f2)):
            ctx.arg_origin(f"1.{nm}-increment-on-sequence", c, 0, f"field:{SL}::SeqLock.sequence", depth=1)
        ctx.add("1.begin-increment-ordering", "CONST", ordering(b, f1, 2) in (["AcqRel"], ["SeqCst"]), f"first fetch_add ordering {ordering(b, f1, 2)} (AcqRel or stronger)", sites=[f1.where()], site_key="o1")
        ctx.add("1.end-increment-ordering", "CONST", ordering(b, f2, 2) in (["Release"], ["AcqRel"], ["SeqCst"]), f"second fetch_add ordering {ordering(b, f2, 2)} (Release or stronger)", sites=[f2.where()], site_key="o2")
        fb = [c for c in fences if b.path([f1.target], [c.bb]) is not None and b.path([c.target], [cu.bb]) is not None]
        fe = [c for c in fences if b.path([cu.target], [c.bb]) is not None and b.path([c.target], [f2.bb]) is not None]
        ctx.add("1.acquire-fence-after-begin", "ORDER", len(fb) == 1 and ordering(b, fb[0], 0) in (["Acquire"], ["AcqRel"], ["SeqCst"]), "fence(Acquire) between the first increment and the write section",
                sites=[c.where() for c in fb], site_key="fb")
        ctx.add("1.release-fence-before-end", "ORDER", len(fe) == 1 and ordering(b, fe[0], 0) in (["Release"], ["AcqRel"], ["SeqCst"]), "fence(Release) between the write section and the second increment",
                sites=[c.where() for c in fe], site_key="fe")
        # the data cell is only accessed inside the closure given to catch_unwind
        cell_root = [c for c in b.calls if c.bb in b.live and c.is_path("core::cell::UnsafeCell::get")]
        ctx.expect_sites("1.no-data-access-outside-write-section", cell_root, exactly=0, what="data.get() outside the catch_unwind closure")
        cl = [x for x in u.bodies if x is not b]
        cell_cl = [c for x in cl for c in x.calls if c.bb in x.live and c.is_path("core::cell::UnsafeCell::get")]
        ctx.expect_sites("1.data-access-in-write-section", cell_cl, exactly=1, what="data.get() inside the closure")
        ctx.arg_origin("1.write-section-is-that-closure", cu, 0, f"closure:{W}::write::{{closure#0}}", depth=1)

    with ctx.clause("2.reader-shape"):
        b = F.unit(f"{R}::read").root
        lds = sorted([c for c in b.calls_to(*LD) if c.bb in b.live], key=lambda c: c.bb)
        ctx.expect_sites("2.two-loads", lds, exactly=2, what="sequence.load")
        cell = ctx.one_call(b, "core::cell::UnsafeCell::get")
        start = [c for c in lds if b.path([c.target], [cell.bb]) is not None and b.path([cell.target], [c.bb], cut_blocks=[x.bb for x in lds if x is not c]) is None]
        end = [c for c in lds if c not in start]
        ctx.add("2.start-and-end-load", "ORDER", len(start) == 1 and len(end) == 1, "one load before and one after the data read", sites=[c.where() for c in lds], site_key="se")
        s, e = start[0], end[0]
        for nm, c in (("start", s), ("end", e)):
            ctx.arg_origin(f"2.{nm}-load-of-sequence", c, 0, f"field:{SL}::SeqLock.sequence", depth=1)
            ctx.add(f"2.{nm}-load-ordering", "CONST", ordering(b, c, 1) in (["Acquire"], ["SeqCst"]), f"{nm} load ordering {ordering(b, c, 1)} (Acquire or stronger)", sites=[c.where()], site_key=nm + ":o")
        ctx.arg_origin("2.data-read-of-data-cell", cell, 0, f"field:{SL}::SeqLock.data", depth=1)
        ctx.dominated("2.start-load-before-data-read", b, [cell], by_blocks=[s])
        rets = b.return_blocks()
        ctx.add("2.end-load-before-return", "MPT", b.path([cell.target], rets, cut_blocks=[e.bb]) is None, "every path from the data read to a return re-loads the counter", sites=[e.where()], site_key="end")
        fences = [c for c in b.calls_to(FENCE) if c.bb in b.live]
        f_before = [c for c in fences if b.path([s.target], [c.bb], cut_blocks=[cell.bb]) is not None and b.path([c.target], [cell.bb], cut_blocks=[s.bb]) is not None]
        f_after = [c for c in fences if b.path([cell.target], [c.bb], cut_blocks=[e.bb]) is not None and b.path([c.target], [e.bb], cut_blocks=[cell.bb]) is not None]
        okf = lambda cs: len(cs) >= 1 and all(ordering(b, c, 0) in (["Acquire"], ["AcqRel"], ["SeqCst"]) for c in cs)
        ctx.add("2.acquire-fence-before-data-read", "ORDER", okf(f_before) and b.path([s.target], [cell.bb], cut_blocks=[c.bb for c in f_before]) is None,
                "fence(Acquire) on every path from the start load to the data read", sites=[c.where() for c in f_before], site_key="f1")
        ctx.add("2.acquire-fence-after-data-read", "ORDER", okf(f_after) and b.path([cell.target], [e.bb], cut_blocks=[c.bb for c in f_after]) is None,
                "fence(Acquire) on every path from the data read to the end load", sites=[c.where() for c in f_after], site_key="f2")
        # return only if start == end and start is even
        eq = ctx.cmp_tests(b, "Eq", lhs=f"call:{LD[0]}", rhs=f"call:{LD[0]}", depth=0)
        eq = [(sw, pol) for sw, pol in eq if b.path([e.target], [sw.bb]) is not None]
        ctx.guarded("2.return-only-if-unchanged", b, rets, eq, truth=True, detail="the value is returned only when the counter did not change during the read")
        ev = ctx.call_tests(b, ["u64::is_multiple_of", "core::num::<impl u64>::is_multiple_of"])
        ev_pre = [(sw, pol) for sw, pol in ev if b.path([sw.bb], [cell.bb]) is not None and b.path([cell.target], [sw.bb], cut_blocks=[s.bb]) is None]
        ctx.guarded("2.data-read-only-if-start-even", b, [cell], ev_pre, truth=True, detail="an odd counter (write in progress) never reaches the data read")
        for sw, pol in ev:
            c = [x for x in b.calls if x.target == sw.bb or x.bb == sw.bb]
        evc = [c for c in b.calls if c.bb in b.live and c.name == "is_multiple_of"]
        ctx.expect_sites("2.parity-tests", evc, at_least=1, what="start.is_multiple_of(2)")
        for i, c in enumerate(evc):
            ctx.const_arg(f"2.parity-modulus-{i}", c, 1, 2)
            ctx.arg_origin(f"2.parity-of-start-{i}", c, 0, f"call:{LD[0]}", depth=0)
        # the returned value is the copy made between the loads
        rv = [s_ for bb, j, s_ in b.stmts() if bb in b.live and s_["k"] == "assign" and s_["pl"]["l"] == 0 and not s_["pl"].get("p")]
        ctx.add("2.returns-the-copied-value", "PROV", len(rv) == 1 and atom_match(Origins(b, 1).atoms(rv[0]["rv"].get("op", {})), "call:core::cell::UnsafeCell::get"),
                "the returned value is the copy read from the data cell in this iteration", sites=[str(s_.get("line")) for s_ in rv], site_key="ret")
        # a failed check re-loads start: from the failing edges the only way to the data read is through the start load
        ctx.add("2.retry-reloads-start", "MPT", b.path([e.target], [cell.bb], cut_blocks=[s.bb]) is None, "after a failed check the next attempt starts with a fresh start load", sites=[s.where()], site_key="retry")

    with ctx.clause("3.who-touches-what"):
        ctx.only_callers("3.data-cell-access", "core::cell::UnsafeCell::get", [f"{W}::write", f"{R}::read"], CR, min_sites=2)
        fas = [c for c in ctx.call_sites(FA[0], CR) if hasattr(c, "args") and atom_match(Origins(c.body, 1).atoms(c.args[0]), f"field:{SL}::SeqLock.sequence")]
        stores = [c for c in ctx.call_sites("core::sync::atomic::Atomic::store", CR) + ctx.call_sites("core::sync::atomic::Atomic::swap", CR) +
                  ctx.call_sites("core::sync::atomic::Atomic::compare_exchange", CR) + ctx.call_sites("core::sync::atomic::Atomic::fetch_sub", CR)
                  if hasattr(c, "args") and atom_match(Origins(c.body, 1).atoms(c.args[0]), f"field:{SL}::SeqLock.sequence")]
        ctx.add("3.counter-only-incremented-in-write", "WMC", all(c.body.unit == f"{W}::write" for c in fas) and not stores and len(fas) == 2,
                "the sequence counter is modified only by the two increments of write()", sites=[c.where() for c in fas + stores], site_key="seq")

    with ctx.clause("4.single-writer-typing"):
        imps = F.crate("fuel_core_services")["raw"]["impls"]
        wimpl = [i for i in imps if i.get("self_q") == W]
        rimpl = [i for i in imps if i.get("self_q") == R]
        tr = lambda l: sorted({str(i.get("trait")) for i in l if i.get("trait")})
        ctx.add("4.writer-not-clone", "TYPE", "core::clone::Clone" not in tr(wimpl), f"SeqLockWriter implements {tr(wimpl)}: no Clone (one writer handle per lock)", sites=tr(wimpl), site_key="wclone")
        ctx.add("4.reader-clone", "TYPE", "core::clone::Clone" in tr(rimpl), f"SeqLockReader implements {tr(rimpl)}", sites=tr(rimpl), site_key="rclone")
        ctx.add("4.writer-no-manual-sync", "TYPE", not any("Sync" in t or "Send" in t for t in tr(wimpl)), "no `unsafe impl Sync/Send for SeqLockWriter`", sites=tr(wimpl), site_key="wsync")
        adt = F.adt(W, "fuel_core_services")
        ftys = [(f["n"], f.get("t", "")) for f in adt["variants"][0]["fields"]]
        # write(&self): sharing &SeqLockWriter between threads must be impossible, i.e. the type must not be Sync.
        # Structurally: it has a field whose type is never Sync (PhantomData<Cell<_>> / PhantomData<*const _> / Cell), or write takes &mut self.
        sig = F.fn_item(f"{W}::write", "fuel_core_services")[0].get("sig", "")
        mut_self = "&mut " in sig.split(",")[0] or "&'_ mut" in sig.split(",")[0]
        not_sync = [n for n, t in ftys if any(k in t for k in ("::cell::Cell<", "::cell::UnsafeCell<", "*const ", "*mut ", "::cell::RefCell<")) and "Arc<" not in t]
        ctx.add("4.writer-not-shareable-between-threads", "TYPE", bool(mut_self or not_sync),
                "write() cannot be entered by two threads at once: it takes &mut self or the writer is !Sync" +
                ("" if (mut_self or not_sync) else f"; today write takes `{sig.split(',')[0]}` and the fields {ftys} make SeqLockWriter Sync, so two threads sharing &SeqLockWriter can both be inside write(): "
                 "the counter becomes even while both are mutating the cell and a reader returns an intermediate value"),
                sites=[f"{n}: {t}" for n, t in ftys], site_key="wshare")
