"""C40 — genesis import can be interrupted and resumed (DESIGN §7 C40): atomic group + progress, skip on resume."""
from core import AnchorMissing, Origins, atom_match

LEVEL = "other"
EXPLANATION = """
Order and atomicity in fuel_core::service::genesis::importer::import_task, for all paths:
(1) ImportTask::run, per-group closure: a group read error leaves before anything is written; then
db.write_transaction() -> handler.process(group, &mut tx) ok -> update_genesis_progress(&mut tx,
migration_name, index) ok -> tx.commit() ok -> reporter.set_index(index): each step is reached only on
the ok edge of the previous one (DOM chain); process and update_genesis_progress receive the *same*
transaction that is committed, the progress index is the enumerate index of that group, there is
exactly one commit and nothing is committed between process and the progress update (so a crash leaves
either the whole group with its index or nothing); a failing step returns the error without commit.
(2) run applies .skip(self.skip) to the enumerated groups before take_while(cancel) and before
try_for_each; cancellation ends in an error exit. (3) ImportTask::new: skip is stored index + 1 when
a progress entry exists, else 0, looked up under the same migration name that run writes.
(4) update_genesis_progress writes GenesisMetadata under the given key with the given index, and is
the only writer of that table besides the final cleanup. Exactly one storage transaction is opened per group.
"""
NOT_DECIDED = """Idempotence of the handlers (not needed given atomic progress); what the group iterator yields after a restart."""

IT = "fuel_core::service::genesis::importer::import_task"
TASK = f"{IT}::ImportTask"
PROC = f"{IT}::ImportTable::process"
UGP = "fuel_core::database::genesis_progress::GenesisProgressMutate::update_genesis_progress"
COMMIT = ("fuel_core_storage::structured_storage::StructuredStorage::commit", "fuel_core_storage::transactional::StorageTransaction::commit")
MIG = "fuel_core::service::genesis::importer::migration_name"


def check(ctx):
    F = ctx.F
    with ctx.clause("1.group-atomicity"):
        u = F.unit(f"{TASK}::run")
        b = ctx.body_with(u, PROC)
        wts = [c for c in b.calls_to("fuel_core_storage::transactional::WriteTransaction::write_transaction") if c.bb in b.live]
        ctx.expect_sites("1.one-storage-transaction-per-group", wts, exactly=1,
                         what="storage transactions opened per group (the group's data and its progress marker must be committed together: with two transactions a crash between "
                              "the commits leaves the data without the marker, or the marker without the data)")
        if not wts:
            raise AnchorMissing("db.write_transaction() in the group closure of ImportTask::run")
        wt = wts[0]
        pr = ctx.one_call(b, PROC)
        up = ctx.one_call(b, UGP)
        cm = [c for c in b.calls_to(*COMMIT) if c.bb in b.live]
        ctx.expect_sites("1.one-commit-per-group", cm, exactly=1, what="tx.commit()")
        if not cm:
            raise AnchorMissing('tx.commit() in the group closure of ImportTask::run')
        cm = cm[0]
        si = ctx.one_call(b, "fuel_core::service::genesis::progress::ProgressReporter::set_index")
        ctx.after_ok("1.progress-after-process-ok", pr, [up])
        ctx.after_ok("1.commit-after-progress-ok", up, [cm])
        ctx.after_ok("1.commit-after-process-ok", pr, [cm])
        ctx.after_ok("1.report-after-commit-ok", cm, [si])
        ctx.dominated("1.tx-opened-before-process", b, [pr], by_blocks=[wt])
        o = Origins(b, 0)
        same = lambda a: atom_match(o.atoms(a), "call:fuel_core_storage::transactional::WriteTransaction::write_transaction")
        ctx.add("1.process-writes-into-the-group-transaction", "PROV", same(pr.args[2]), "handler.process gets &mut tx", sites=[pr.where()], site_key="ptx")
        ctx.add("1.progress-written-into-the-same-transaction", "PROV", same(up.args[0]), "update_genesis_progress gets &mut tx", sites=[up.where()], site_key="utx")
        ctx.add("1.that-transaction-is-committed", "PROV", same(cm.args[0]), "tx.commit() commits that transaction", sites=[cm.where()], site_key="ctx")
        # the closure argument is the (index, group) pair produced by enumerate(): field 0 is the index, field 1 the group
        ctx.arg_origin("1.progress-index-is-group-index", up, 2, "field:0", depth=0)
        ctx.arg_origin("1.progress-key-is-migration-name", up, 1, f"call:{MIG}", depth=1)
        ctx.arg_origin("1.processed-group-is-the-enumerated-group", pr, 1, "field:1", depth=1)
        # the transaction is opened on the task's database (the one whose progress `new` reads)
        ctx.add("1.tx-on-task-database", "PROV", atom_match(ctx.resolved_atoms(u, b, wt.args[0], 1), f"field:{TASK}.db"), "the transaction is opened on the task's own database (self.db)", sites=[wt.where()], site_key="wtdb")
        # error exits of the three fallible steps do not pass the commit
        for nm, c in (("process", pr), ("progress", up)):
            bad, _ = ctx.ok_edges(c, polarity="bad")
            okk = bool(bad) and all(b.path([ctx._edge_target(b, e)], [cm.bb]) is None for e in bad)
            ctx.add(f"1.{nm}-error-skips-commit", "REJECT", okk, f"a failing {nm} step never reaches the commit", sites=[c.where()], site_key=nm + ":err")
            okr = bool(bad) and all(b.path([ctx._edge_target(b, e)], b.return_blocks(), cut_blocks=b.error_blocks()) is None for e in bad)
            ctx.add(f"1.{nm}-error-propagates", "REJECT", okr, f"a failing {nm} step ends the import with an error", sites=[c.where()], site_key=nm + ":prop")
        bad, _ = ctx.ok_edges(cm, polarity="bad")
        ctx.add("1.commit-error-propagates", "REJECT", bool(bad) and all(b.path([ctx._edge_target(b, e)], b.return_blocks() + [si.bb], cut_blocks=b.error_blocks()) is None for e in bad),
                "a failing commit ends the import with an error and is not reported as progress", sites=[cm.where()], site_key="cm:prop")
        # group read error leaves before the transaction is opened
        tb = [c for c in b.calls_to("core::ops::try_trait::Try::branch") if c.bb in b.live and atom_match(Origins(b, 0).atoms(c.args[0]), "field:1") and b.path([c.target], [wt.bb]) is not None]
        ctx.expect_sites("1.group-read-error-checked", tb, at_least=1, what="`group?`")
        ctx.dominated("1.group-read-checked-before-write", b, [wt, pr], by_blocks=tb[:1])
        # no other storage write / commit in the closure
        oth = [c for c in b.calls if c.bb in b.live and (c.name in ("commit", "commit_changes", "insert", "replace", "remove", "take", "put")) and c is not cm]
        ctx.expect_sites("1.no-write-outside-the-transaction", oth, exactly=0, what="storage write or commit in the group closure besides tx.commit()")

    with ctx.clause("2.skip-and-cancel"):
        u = F.unit(f"{TASK}::run")
        b = u.root
        sk = ctx.one_call(b, "core::iter::traits::iterator::Iterator::skip")
        en = ctx.one_call(b, "core::iter::traits::iterator::Iterator::enumerate")
        tw = ctx.one_call(b, "core::iter::traits::iterator::Iterator::take_while")
        tfe = ctx.one_call(b, "core::iter::traits::iterator::Iterator::try_for_each")
        ctx.arg_origin("2.skip-count-is-stored-progress", sk, 1, f"field:{TASK}.skip", depth=0)
        ctx.arg_origin("2.skip-after-enumerate", sk, 0, "call:core::iter::traits::iterator::Iterator::enumerate", depth=0)
        ctx.arg_origin("2.enumerate-the-groups", en, 0, f"field:{TASK}.groups", depth=1)
        ctx.arg_origin("2.cancel-after-skip", tw, 0, "call:core::iter::traits::iterator::Iterator::skip", depth=0)
        ctx.arg_origin("2.process-after-cancel-filter", tfe, 0, "call:core::iter::traits::iterator::Iterator::take_while", depth=0)
        bad, _ = ctx.ok_edges(tfe, polarity="bad")
        ctx.add("2.group-failure-propagates", "REJECT", bool(bad) and all(b.path([ctx._edge_target(b, e)], b.return_blocks(), cut_blocks=b.error_blocks()) is None for e in bad),
                "an error of any group ends run() with that error", sites=[tfe.where()], site_key="tfe")
        ic = ctx.value_tests(b, "call:*::is_cancelled", depth=0)
        ctx.test_leads_to_error("2.cancelled-import-is-an-error", b, ic, truth=True, detail="a cancelled import does not report success")

    with ctx.clause("3.resume-point"):
        nb = F.unit(f"{TASK}::new").root
        get = [c for c in nb.calls if c.bb in nb.live and c.name == "get" and c.path.startswith("fuel_storage::")]
        ctx.expect_sites("3.progress-lookup", get, exactly=1, what="storage::<GenesisMetadata>().get(&progress_name)")
        if get:
            ctx.add("3.lookup-in-progress-table", "PROV", any("GenesisMetadata" in t for t in get[0].targs) or "GenesisMetadata" in str(get[0].self_ty), "the lookup reads GenesisMetadata",
                    sites=[get[0].where()], site_key="tbl", witness={"targs": get[0].targs, "self": get[0].self_ty})
            ctx.arg_origin("3.lookup-key-is-migration-name", get[0], 1, f"call:{MIG}", depth=1)
        sa = ctx.one_call(nb, "usize::saturating_add", "core::num::<impl usize>::saturating_add")
        ctx.const_arg("3.resume-after-last-handled", sa, 1, 1)
        ctx.arg_origin("3.resume-from-stored-index", sa, 0, "call:fuel_storage::*::get", depth=3)
        ag = [s for bb, j, s in nb.stmts() if bb in nb.live and s["k"] == "assign" and s["rv"]["k"] == "agg" and s["rv"].get("adt") == TASK]
        ctx.expect_sites("3.task-built", [str(s.get("line")) for s in ag], exactly=1, what="ImportTask { .. }")
        if ag:
            f = ag[0]["rv"]["fields"]
            at = Origins(nb, 0).atoms(ag[0]["rv"]["ops"][f.index("skip")])
            ctx.add("3.skip-is-index-plus-1-or-0", "PROV", atom_match(at, "call:usize::saturating_add") and any(k == "const" and str(v) in ("0", "0_usize") for k, v in at),
                    "skip = stored index + 1, or 0 when nothing is stored", sites=[str(ag[0].get("line"))], site_key="skip", witness={"atoms": sorted(map(str, at))[:12]})
            at = Origins(nb, 0).atoms(ag[0]["rv"]["ops"][f.index("db")])
            ctx.add("3.task-db-is-the-queried-db", "PROV", atom_match(at, "param:3"), "the task writes the database whose progress it read", sites=[str(ag[0].get("line"))], site_key="db")
        # new() and run() name the migration with the same generic arguments
        mr = [c for x in F.unit(f"{TASK}::run").bodies for c in x.calls_to(MIG) if c.bb in x.live]
        mn = [c for c in nb.calls_to(MIG) if c.bb in nb.live]
        ctx.add("3.same-migration-name", "SIBLING", len(mr) == 1 and len(mn) == 1 and mr[0].targs[-2:] == mn[0].targs[-2:],
                "new() reads the progress under the name run() writes it", sites=[c.where() for c in mr + mn], site_key="name", witness={"run": mr and mr[0].targs, "new": mn and mn[0].targs})

    with ctx.clause("4.progress-table"):
        us = F.find_units("<* as fuel_core::database::genesis_progress::GenesisProgressMutate>::update_genesis_progress", "fuel_core")
        ctx.expect_sites("4.impl", [x.q for x in us], exactly=1, what="impl GenesisProgressMutate")
        b = us[0].root
        ins = [c for c in b.calls if c.bb in b.live and c.name == "insert" and c.path.startswith("fuel_storage::")]
        ctx.expect_sites("4.insert", ins, exactly=1, what="storage_as_mut::<GenesisMetadata>().insert(key, &index)")
        if ins:
            ctx.arg_origin("4.insert-key", ins[0], 1, "param:2", depth=0)
            ctx.arg_origin("4.insert-index", ins[0], 2, "param:3", depth=0)
            bad, _ = ctx.ok_edges(ins[0], polarity="bad")
            ctx.add("4.insert-error-propagates", "REJECT", bool(bad) and all(b.path([ctx._edge_target(b, e)], b.return_blocks(), cut_blocks=b.error_blocks()) is None for e in bad),
                    "a failing progress write is an error", sites=[ins[0].where()], site_key="ins")
        callers = ctx.call_sites(UGP, ["fuel_core"])
        ctx.expect_sites("4.progress-writers", [c for c in callers if hasattr(c, "args")], exactly=1, what="callers of update_genesis_progress (only ImportTask::run)")
