// Facts extractor for the /verif static analysis (DESIGN.md §4.1).
//
// Runs as RUSTC_WORKSPACE_WRAPPER (argv[1] is the real rustc path and is dropped).
// In `after_expansion` it walks every local body owner, reads `mir_built`, and writes
// one JSON file per crate (one write per process) into $VERIF_FACTS_DIR.
// Compilation then continues normally, so type errors still fail the build.
#![feature(rustc_private)]
#![allow(rustc::internal)]

extern crate rustc_abi;
extern crate rustc_data_structures;
extern crate rustc_driver;
extern crate rustc_hir;
extern crate rustc_interface;
extern crate rustc_middle;
extern crate rustc_session;
extern crate rustc_span;

use rustc_driver::Compilation;
use rustc_hir::def::DefKind;
use rustc_hir::def_id::{DefId, LocalDefId, LOCAL_CRATE};
use rustc_interface::interface::Compiler;
use rustc_middle::mir::{
    self, AggregateKind, BasicBlock, Body, BorrowKind, Const, Operand, Place, PlaceElem, Rvalue,
    StatementKind, TerminatorKind,
};
use rustc_middle::ty::print::{with_crate_prefix, with_no_trimmed_paths};
use rustc_middle::ty::print::PrintTraitRefExt;
use rustc_middle::ty::{self, Instance, Ty, TyCtxt, TypeVisitableExt, TypingEnv};
use rustc_span::Span;
use std::fmt::Write as _;

mod json;
use json::J;

struct Cb;

impl rustc_driver::Callbacks for Cb {
    fn after_expansion<'tcx>(&mut self, _c: &Compiler, tcx: TyCtxt<'tcx>) -> Compilation {
        if let Ok(dir) = std::env::var("VERIF_FACTS_DIR") {
            extract(tcx, &dir);
        }
        Compilation::Continue
    }
}

fn main() -> std::process::ExitCode {
    let mut args: Vec<String> = std::env::args().collect();
    // wrapper protocol: argv[1] is the path of rustc
    if args.len() > 1 && (args[1].ends_with("rustc") || args[1].contains("/rustc")) {
        args.remove(1);
    }
    rustc_driver::install_ice_hook("https://invalid/", |_| ());
    rustc_driver::catch_with_exit_code(|| {
        rustc_driver::run_compiler(&args, &mut Cb);
    })
}

// ---------------------------------------------------------------------------

thread_local! { static KRATE: std::cell::RefCell<String> = std::cell::RefCell::new(String::new()); }

/// Print with full paths; local items get the crate name as prefix so that type strings
/// are uniform across crates.
fn full<T: std::fmt::Display>(x: T) -> String {
    let s = with_crate_prefix!(with_no_trimmed_paths!(format!("{}", x)));
    if s.contains("crate::") {
        KRATE.with(|k| s.replace("crate::", &format!("{}::", k.borrow())))
    } else {
        s
    }
}

fn ty_str<'tcx>(ty: Ty<'tcx>) -> String {
    full(ty)
}

fn comp_name(tcx: TyCtxt<'_>, def_id: DefId) -> String {
    let key = tcx.def_key(def_id);
    format!("{}", key.disambiguated_data.as_sym(true))
}

/// Path of a type for use inside a qualified name: ADT -> its def path (no generic
/// arguments); references are peeled with a leading '&'; anything else is printed.
fn self_base<'tcx>(tcx: TyCtxt<'tcx>, ty: Ty<'tcx>) -> String {
    match ty.kind() {
        ty::Adt(adt, _) => qname(tcx, adt.did()),
        ty::Ref(_, inner, m) => {
            if m.is_mut() {
                format!("&mut {}", self_base(tcx, *inner))
            } else {
                format!("&{}", self_base(tcx, *inner))
            }
        }
        ty::Dynamic(preds, ..) => match preds.principal_def_id() {
            Some(d) => format!("dyn {}", qname(tcx, d)),
            None => ty_str(ty),
        },
        _ => ty_str(ty),
    }
}

/// Canonical, generic-argument-free qualified name of an item (see DESIGN §4.1):
///   free fn / ADT / trait : krate::mod::Name
///   inherent method       : <adt path>::method
///   trait impl method     : <<self base> as <trait path>>::method
///   trait method          : <trait path>::method
///   closure               : <parent>::{closure#n}
fn qname(tcx: TyCtxt<'_>, def_id: DefId) -> String {
    let Some(parent) = tcx.opt_parent(def_id) else {
        return tcx.crate_name(def_id.krate).to_string();
    };
    let name = comp_name(tcx, def_id);
    if let DefKind::Impl { of_trait } = tcx.def_kind(parent) {
        let self_ty = tcx.type_of(parent).instantiate_identity().skip_norm_wip();
        let sb = self_base(tcx, self_ty);
        if of_trait {
            let tr = tcx.impl_trait_ref(parent).instantiate_identity().skip_norm_wip();
            return format!("<{} as {}>::{}", sb, qname(tcx, tr.def_id), name);
        }
        return format!("{}::{}", sb, name);
    }
    if let DefKind::Impl { .. } = tcx.def_kind(def_id) {
        // an impl block itself: name it after parent + {impl#n}
        return format!("{}::{}", qname(tcx, parent), name);
    }
    format!("{}::{}", qname(tcx, parent), name)
}

struct Loc {
    file: String,
    line: usize,
    end_line: usize,
    exp: Option<String>,
}

fn loc(tcx: TyCtxt<'_>, span: Span) -> Loc {
    let exp = if span.from_expansion() {
        let mut s = span;
        let mut name = None;
        // outermost macro of the expansion chain
        while s.from_expansion() {
            let data = s.ctxt().outer_expn_data();
            name = Some(format!("{}", data.kind.descr()));
            s = data.call_site;
        }
        name
    } else {
        None
    };
    let cs = span.source_callsite();
    let sm = tcx.sess.source_map();
    let lo = sm.lookup_char_pos(cs.lo());
    let hi = sm.lookup_char_pos(cs.hi());
    let file = match &lo.file.name {
        rustc_span::FileName::Real(r) => match r.local_path() {
            Some(p) => p.to_string_lossy().to_string(),
            None => format!("{:?}", lo.file.name),
        },
        other => format!("{:?}", other),
    };
    Loc { file, line: lo.line, end_line: hi.line, exp }
}

struct Cx<'a, 'tcx> {
    tcx: TyCtxt<'tcx>,
    body: &'a Body<'tcx>,
    env: TypingEnv<'tcx>,
    seen_adts: &'a std::cell::RefCell<Vec<DefId>>,
}

impl<'a, 'tcx> Cx<'a, 'tcx> {
    fn place(&self, p: &Place<'tcx>) -> J {
        let tcx = self.tcx;
        let mut proj = Vec::new();
        let mut fa: Vec<J> = Vec::new();
        let mut any_adt = false;
        let mut pty = mir::PlaceTy::from_ty(self.body.local_decls[p.local].ty);
        for elem in p.projection.iter() {
            let s = match elem {
                PlaceElem::Deref => "*".to_string(),
                PlaceElem::Field(f, _) => match pty.ty.kind() {
                    ty::Adt(adt, _) => {
                        let v = pty.variant_index.unwrap_or(rustc_abi::FIRST_VARIANT);
                        any_adt = true;
                        fa.push(J::S(qname(tcx, adt.did())));
                        if adt.is_enum() && pty.variant_index.is_none() {
                            format!(".{}", f.as_usize())
                        } else {
                            format!(".{}", adt.variant(v).fields[f].name)
                        }
                    }
                    _ => {
                        fa.push(J::S(String::new()));
                        format!(".{}", f.as_usize())
                    }
                },
                PlaceElem::Downcast(name, idx) => match name {
                    Some(n) => format!("@{}", n),
                    None => format!("@{}", idx.as_usize()),
                },
                PlaceElem::Index(l) => format!("[_{}]", l.as_usize()),
                PlaceElem::ConstantIndex { offset, from_end, .. } => {
                    if from_end {
                        format!("[-{}]", offset)
                    } else {
                        format!("[{}]", offset)
                    }
                }
                PlaceElem::Subslice { from, to, from_end } => {
                    format!("[{}..{}{}]", from, if from_end { "-" } else { "" }, to)
                }
                _ => "as".to_string(),
            };
            proj.push(J::S(s));
            pty = pty.projection_ty(tcx, elem);
        }
        let mut o = J::obj();
        o.put("l", J::U(p.local.as_usize() as u128));
        if !proj.is_empty() {
            o.put("p", J::A(proj));
        }
        if any_adt {
            o.put("fa", J::A(fa));
        }
        o
    }

    fn fn_desc(&self, def_id: DefId, args: ty::GenericArgsRef<'tcx>) -> J {
        let tcx = self.tcx;
        let mut o = J::obj();
        o.put("path", J::S(qname(tcx, def_id)));
        let targs: Vec<J> = args
            .iter()
            .filter_map(|a| match a.kind() {
                ty::GenericArgKind::Type(t) => Some(J::S(ty_str(t))),
                ty::GenericArgKind::Const(c) => Some(J::S(full(c))),
                _ => None,
            })
            .collect();
        if !targs.is_empty() {
            o.put("targs", J::A(targs));
        }
        if matches!(tcx.def_kind(def_id), DefKind::AssocFn) {
            if let Some(tr) = tcx.trait_of_assoc(def_id) {
                o.put("trait", J::S(qname(tcx, tr)));
                let self_ty = args.type_at(0);
                o.put("self", J::S(ty_str(self_ty)));
                // closure called through Fn*/FnOnce
                let mut peeled = self_ty;
                while let ty::Ref(_, inner, _) = peeled.kind() {
                    peeled = *inner;
                }
                match peeled.kind() {
                    ty::Closure(d, _) | ty::Coroutine(d, _) | ty::CoroutineClosure(d, _) => {
                        o.put("self_closure", J::S(qname(tcx, *d)));
                    }
                    ty::FnDef(d, _) => {
                        o.put("self_fn", J::S(qname(tcx, *d)));
                    }
                    _ => {}
                }
                // try to resolve to the impl method
                if !args.has_infer() {
                    if let Ok(Some(inst)) = Instance::try_resolve(tcx, self.env, def_id, args) {
                        let rd = inst.def_id();
                        if rd != def_id {
                            match tcx.def_kind(rd) {
                                DefKind::AssocFn | DefKind::Fn | DefKind::Closure => {
                                    o.put("res", J::S(qname(tcx, rd)));
                                }
                                _ => {}
                            }
                        }
                    }
                }
            } else {
                // inherent method: record the impl self type with arguments
                let parent = tcx.parent(def_id);
                if let DefKind::Impl { .. } = tcx.def_kind(parent) {
                    let st = tcx.type_of(parent).instantiate(tcx, args).skip_norm_wip();
                    o.put("self", J::S(ty_str(st)));
                }
            }
        }
        o
    }

    fn constant(&self, c: &mir::ConstOperand<'tcx>) -> J {
        let tcx = self.tcx;
        let ty = c.const_.ty();
        let mut o = J::obj();
        match ty.kind() {
            ty::FnDef(def_id, args) => {
                o.put("k", J::s("fn"));
                o.put("fn", self.fn_desc(*def_id, args));
                return o;
            }
            _ => {}
        }
        o.put("k", J::s("const"));
        o.put("t", J::S(ty_str(ty)));
        match ty.kind() {
            ty::Bool | ty::Int(_) | ty::Uint(_) | ty::Char => {
                let evaluated = match c.const_ {
                    Const::Val(..) | Const::Ty(..) => c.const_.try_eval_scalar_int(tcx, self.env),
                    Const::Unevaluated(uv, _) => {
                        // only evaluate closed constants (no generic params)
                        if uv.args.has_param() { None } else { c.const_.try_eval_scalar_int(tcx, self.env) }
                    }
                };
                if let Some(si) = evaluated {
                    let bits = si.to_bits(si.size());
                    let v: i128 = if matches!(ty.kind(), ty::Int(_)) {
                        si.to_int(si.size())
                    } else {
                        bits as i128
                    };
                    if matches!(ty.kind(), ty::Int(_)) {
                        o.put("v", J::I(v));
                    } else {
                        o.put("v", J::U(bits));
                    }
                }
            }
            _ => {}
        }
        if let Const::Unevaluated(uv, _) = c.const_ {
            o.put("def", J::S(qname(tcx, uv.def)));
        }
        if !o.has("v") {
            let s = full(c.const_);
            let s = if s.len() > 120 { s[..floor_char(&s, 120)].to_string() } else { s };
            o.put("s", J::S(s));
        }
        o
    }

    fn operand(&self, op: &Operand<'tcx>) -> J {
        match op {
            Operand::Copy(p) => {
                let mut o = self.place(p);
                o.put("k", J::s("copy"));
                o
            }
            Operand::Move(p) => {
                let mut o = self.place(p);
                o.put("k", J::s("move"));
                o
            }
            Operand::Constant(c) => self.constant(c),
            #[allow(unreachable_patterns)]
            _ => {
                let mut o = J::obj();
                o.put("k", J::s("other"));
                o.put("s", J::S(format!("{:?}", op)));
                o
            }
        }
    }

    fn rvalue(&self, rv: &Rvalue<'tcx>) -> J {
        let tcx = self.tcx;
        let mut o = J::obj();
        match rv {
            Rvalue::Use(op, ..) => {
                o.put("k", J::s("use"));
                o.put("op", self.operand(op));
            }
            Rvalue::Repeat(op, _) => {
                o.put("k", J::s("repeat"));
                o.put("op", self.operand(op));
            }
            Rvalue::Ref(_, bk, p) => {
                o.put("k", J::s("ref"));
                o.put("mut", J::B(matches!(bk, BorrowKind::Mut { .. })));
                o.put("pl", self.place(p));
            }
            Rvalue::RawPtr(k, p) => {
                o.put("k", J::s("rawptr"));
                o.put("mut", J::B(format!("{:?}", k).contains("Mut")));
                o.put("pl", self.place(p));
            }
            Rvalue::Cast(kind, op, ty) => {
                o.put("k", J::s("cast"));
                o.put("ck", J::S(format!("{:?}", kind)));
                o.put("op", self.operand(op));
                o.put("t", J::S(ty_str(*ty)));
            }
            Rvalue::BinaryOp(bop, ops) => {
                o.put("k", J::s("bin"));
                o.put("op", J::S(format!("{:?}", bop)));
                o.put("a", self.operand(&ops.0));
                o.put("b", self.operand(&ops.1));
            }
            Rvalue::UnaryOp(uop, op) => {
                o.put("k", J::s("un"));
                o.put("op", J::S(format!("{:?}", uop)));
                o.put("a", self.operand(op));
            }
            Rvalue::Discriminant(p) => {
                o.put("k", J::s("discr"));
                o.put("pl", self.place(p));
                let pty = p.ty(&self.body.local_decls, tcx).ty;
                if let ty::Adt(adt, _) = pty.kind() {
                    o.put("adt", J::S(qname(tcx, adt.did())));
                    self.seen_adts.borrow_mut().push(adt.did());
                }
            }
            Rvalue::Aggregate(kind, ops) => {
                o.put("k", J::s("agg"));
                match &**kind {
                    AggregateKind::Array(_) => o.put("ak", J::s("array")),
                    AggregateKind::Tuple => o.put("ak", J::s("tuple")),
                    AggregateKind::Adt(did, vidx, _args, _, active_field) => {
                        o.put("ak", J::s("adt"));
                        o.put("adt", J::S(qname(tcx, *did)));
                        let adt = tcx.adt_def(*did);
                        let v = adt.variant(*vidx);
                        o.put("variant", J::S(v.name.to_string()));
                        let names: Vec<J> = match active_field {
                            Some(f) => vec![J::S(v.fields[*f].name.to_string())],
                            None => v.fields.iter().map(|f| J::S(f.name.to_string())).collect(),
                        };
                        o.put("fields", J::A(names));
                    }
                    AggregateKind::Closure(did, _) => {
                        o.put("ak", J::s("closure"));
                        o.put("def", J::S(qname(tcx, *did)));
                    }
                    AggregateKind::Coroutine(did, _) => {
                        o.put("ak", J::s("coroutine"));
                        o.put("def", J::S(qname(tcx, *did)));
                    }
                    AggregateKind::CoroutineClosure(did, _) => {
                        o.put("ak", J::s("coroutine_closure"));
                        o.put("def", J::S(qname(tcx, *did)));
                    }
                    AggregateKind::RawPtr(..) => o.put("ak", J::s("rawptr")),
                }
                o.put("ops", J::A(ops.iter().map(|x| self.operand(x)).collect()));
            }
            Rvalue::CopyForDeref(p) => {
                o.put("k", J::s("use"));
                let mut po = self.place(p);
                po.put("k", J::s("copy"));
                o.put("op", po);
            }
            other => {
                o.put("k", J::s("other"));
                let s = format!("{:?}", other);
                let s = if s.len() > 160 { s[..floor_char(&s, 160)].to_string() } else { s };
                o.put("s", J::S(s));
            }
        }
        o
    }
}

fn floor_char(s: &str, mut i: usize) -> usize {
    while !s.is_char_boundary(i) {
        i -= 1;
    }
    i
}

fn bb(b: BasicBlock) -> J {
    J::U(b.as_usize() as u128)
}

fn wanted(tcx: TyCtxt<'_>, def: LocalDefId) -> bool {
    matches!(
        tcx.def_kind(def),
        DefKind::Fn | DefKind::AssocFn | DefKind::Closure | DefKind::SyntheticCoroutineBody
    )
}

fn body_facts<'tcx>(
    tcx: TyCtxt<'tcx>,
    def: LocalDefId,
    body: &Body<'tcx>,
    seen_adts: &std::cell::RefCell<Vec<DefId>>,
) -> Option<J> {
    let kind = tcx.def_kind(def);
    let did = def.to_def_id();
    let env = TypingEnv::post_analysis(tcx, did);
    let cx = Cx { tcx, body, env, seen_adts };

    let mut o = J::obj();
    o.put("def", J::S(qname(tcx, did)));
    let root = tcx.typeck_root_def_id(did);
    o.put("unit", J::S(qname(tcx, root)));
    o.put("kind", J::S(format!("{:?}", kind)));
    let l = loc(tcx, body.span);
    o.put("file", J::S(l.file));
    o.put("line", J::U(l.line as u128));
    o.put("end_line", J::U(l.end_line as u128));
    if let Some(e) = l.exp {
        o.put("exp", J::S(e));
    }
    o.put("argc", J::U(body.arg_count as u128));
    if body.coroutine.is_some() {
        o.put("coroutine", J::B(true));
    }

    // impl context of the unit root
    if let Some(parent) = tcx.opt_parent(root) {
        if let DefKind::Impl { of_trait } = tcx.def_kind(parent) {
            let st = tcx.type_of(parent).instantiate_identity().skip_norm_wip();
            o.put("impl_self", J::S(ty_str(st)));
            if of_trait {
                let tr = tcx.impl_trait_ref(parent).instantiate_identity().skip_norm_wip();
                o.put("impl_trait", J::S(full(tr.print_only_trait_path())));
            }
        }
    }

    // locals
    let mut names: Vec<Option<String>> = vec![None; body.local_decls.len()];
    let mut dbg = Vec::new();
    for vdi in body.var_debug_info.iter() {
        match &vdi.value {
            mir::VarDebugInfoContents::Place(p) => {
                if p.projection.is_empty() {
                    names[p.local.as_usize()] = Some(vdi.name.to_string());
                } else {
                    let mut d = J::obj();
                    d.put("n", J::S(vdi.name.to_string()));
                    d.put("pl", cx.place(p));
                    dbg.push(d);
                }
            }
            mir::VarDebugInfoContents::Const(_) => {}
        }
    }
    let mut locals = Vec::new();
    for (i, decl) in body.local_decls.iter_enumerated() {
        let mut lo = J::obj();
        lo.put("t", J::S(ty_str(decl.ty)));
        if let Some(n) = &names[i.as_usize()] {
            lo.put("n", J::S(n.clone()));
        }
        if decl.is_user_variable() {
            lo.put("u", J::B(true));
        }
        locals.push(lo);
    }
    o.put("locals", J::A(locals));
    if !dbg.is_empty() {
        o.put("dbg", J::A(dbg));
    }

    // blocks
    let mut blocks = Vec::new();
    for (_bbid, data) in body.basic_blocks.iter_enumerated() {
        let mut b = J::obj();
        if data.is_cleanup {
            b.put("cleanup", J::B(true));
        }
        let mut stmts = Vec::new();
        for st in data.statements.iter() {
            match &st.kind {
                StatementKind::Assign(bx) => {
                    let (pl, rv) = &**bx;
                    let mut s = J::obj();
                    s.put("k", J::s("assign"));
                    s.put("pl", cx.place(pl));
                    s.put("rv", cx.rvalue(rv));
                    let l = loc(tcx, st.source_info.span);
                    s.put("line", J::U(l.line as u128));
                    if let Some(e) = l.exp {
                        s.put("exp", J::S(e));
                    }
                    stmts.push(s);
                }
                StatementKind::SetDiscriminant { place, variant_index } => {
                    let mut s = J::obj();
                    s.put("k", J::s("setdiscr"));
                    s.put("pl", cx.place(place));
                    let pty = place.ty(&body.local_decls, tcx).ty;
                    if let ty::Adt(adt, _) = pty.kind() {
                        s.put("adt", J::S(qname(tcx, adt.did())));
                        s.put("variant", J::S(adt.variant(*variant_index).name.to_string()));
                    }
                    stmts.push(s);
                }
                StatementKind::Intrinsic(i) => {
                    let mut s = J::obj();
                    s.put("k", J::s("intrinsic"));
                    s.put("s", J::S(format!("{:?}", i)));
                    stmts.push(s);
                }
                _ => {}
            }
        }
        if !stmts.is_empty() {
            b.put("s", J::A(stmts));
        }
        let term = data.terminator();
        let mut t = J::obj();
        let l = loc(tcx, term.source_info.span);
        t.put("line", J::U(l.line as u128));
        if let Some(e) = l.exp {
            t.put("exp", J::S(e));
        }
        match &term.kind {
            TerminatorKind::Goto { target } => {
                t.put("k", J::s("goto"));
                t.put("t", bb(*target));
            }
            TerminatorKind::SwitchInt { discr, targets } => {
                t.put("k", J::s("switch"));
                t.put("d", cx.operand(discr));
                let dty = discr.ty(&body.local_decls, tcx);
                t.put("dt", J::S(ty_str(dty)));
                let mut arms = Vec::new();
                for (v, tb) in targets.iter() {
                    arms.push(J::A(vec![J::U(v), bb(tb)]));
                }
                t.put("arms", J::A(arms));
                t.put("otherwise", bb(targets.otherwise()));
            }
            TerminatorKind::Return => t.put("k", J::s("return")),
            TerminatorKind::Unreachable => t.put("k", J::s("unreachable")),
            TerminatorKind::UnwindResume => t.put("k", J::s("resume")),
            TerminatorKind::UnwindTerminate(_) => t.put("k", J::s("terminate")),
            TerminatorKind::Drop { place, target, .. } => {
                t.put("k", J::s("drop"));
                t.put("pl", cx.place(place));
                t.put("t", bb(*target));
            }
            TerminatorKind::Call { func, args, destination, target, .. } => {
                t.put("k", J::s("call"));
                t.put("f", cx.operand(func));
                t.put("args", J::A(args.iter().map(|a| cx.operand(&a.node)).collect()));
                t.put("dest", cx.place(destination));
                if let Some(tb) = target {
                    t.put("t", bb(*tb));
                }
            }
            TerminatorKind::TailCall { func, args, .. } => {
                t.put("k", J::s("tailcall"));
                t.put("f", cx.operand(func));
                t.put("args", J::A(args.iter().map(|a| cx.operand(&a.node)).collect()));
            }
            TerminatorKind::Assert { cond, expected, msg, target, .. } => {
                t.put("k", J::s("assert"));
                t.put("cond", cx.operand(cond));
                t.put("expected", J::B(*expected));
                let mut m = J::obj();
                use mir::AssertKind::*;
                match &**msg {
                    BoundsCheck { len, index } => {
                        m.put("k", J::s("bounds"));
                        m.put("len", cx.operand(len));
                        m.put("index", cx.operand(index));
                    }
                    Overflow(op, a, b) => {
                        m.put("k", J::s("overflow"));
                        m.put("op", J::S(format!("{:?}", op)));
                        m.put("a", cx.operand(a));
                        m.put("b", cx.operand(b));
                    }
                    OverflowNeg(a) => {
                        m.put("k", J::s("overflow_neg"));
                        m.put("a", cx.operand(a));
                    }
                    DivisionByZero(a) => {
                        m.put("k", J::s("div_zero"));
                        m.put("a", cx.operand(a));
                    }
                    RemainderByZero(a) => {
                        m.put("k", J::s("rem_zero"));
                        m.put("a", cx.operand(a));
                    }
                    other => {
                        m.put("k", J::s("other"));
                        let s = format!("{:?}", other);
                        let s = if s.len() > 80 { s[..floor_char(&s, 80)].to_string() } else { s };
                        m.put("s", J::S(s));
                    }
                }
                t.put("msg", m);
                t.put("t", bb(*target));
            }
            TerminatorKind::Yield { value, resume, .. } => {
                t.put("k", J::s("yield"));
                t.put("v", cx.operand(value));
                t.put("t", bb(*resume));
            }
            TerminatorKind::CoroutineDrop => t.put("k", J::s("coroutine_drop")),
            TerminatorKind::FalseEdge { real_target, imaginary_target } => {
                t.put("k", J::s("falseedge"));
                t.put("t", bb(*real_target));
                t.put("imag", bb(*imaginary_target));
            }
            TerminatorKind::FalseUnwind { real_target, .. } => {
                t.put("k", J::s("goto"));
                t.put("t", bb(*real_target));
                t.put("loop", J::B(true));
            }
            TerminatorKind::InlineAsm { targets, .. } => {
                t.put("k", J::s("asm"));
                t.put("ts", J::A(targets.iter().map(|x| bb(*x)).collect()));
            }
        }
        b.put("t", t);
        blocks.push(b);
    }
    o.put("blocks", J::A(blocks));
    Some(o)
}

fn item_facts<'tcx>(tcx: TyCtxt<'tcx>, adts: &mut Vec<J>, traits: &mut Vec<J>, impls: &mut Vec<J>, fns: &mut Vec<J>) {
    for def in tcx.hir_crate_items(()).definitions() {
        let did = def.to_def_id();
        match tcx.def_kind(def) {
            DefKind::Struct | DefKind::Enum | DefKind::Union => {
                let adt = tcx.adt_def(did);
                let mut o = J::obj();
                o.put("q", J::S(qname(tcx, did)));
                o.put("kind", J::S(format!("{:?}", tcx.def_kind(def))));
                let l = loc(tcx, tcx.def_span(did));
                o.put("file", J::S(l.file));
                o.put("line", J::U(l.line as u128));
                let mut vs = Vec::new();
                for v in adt.variants().iter() {
                    let mut vo = J::obj();
                    vo.put("n", J::S(v.name.to_string()));
                    let mut fs = Vec::new();
                    for f in v.fields.iter() {
                        let mut fo = J::obj();
                        fo.put("n", J::S(f.name.to_string()));
                        let fty = tcx.type_of(f.did).instantiate_identity().skip_norm_wip();
                        fo.put("t", J::S(ty_str(fty)));
                        fs.push(fo);
                    }
                    vo.put("fields", J::A(fs));
                    vs.push(vo);
                }
                o.put("variants", J::A(vs));
                adts.push(o);
            }
            DefKind::Trait => {
                let mut o = J::obj();
                o.put("q", J::S(qname(tcx, did)));
                let mut ms = Vec::new();
                for it in tcx.associated_items(did).in_definition_order() {
                    if it.is_fn() {
                        let mut mo = J::obj();
                        mo.put("n", J::S(it.name().to_string()));
                        mo.put("default", J::B(it.defaultness(tcx).has_value()));
                        ms.push(mo);
                    }
                }
                o.put("methods", J::A(ms));
                traits.push(o);
            }
            DefKind::Impl { of_trait } => {
                let mut o = J::obj();
                let st = tcx.type_of(did).instantiate_identity().skip_norm_wip();
                o.put("self", J::S(ty_str(st)));
                o.put("self_q", J::S(self_base(tcx, st)));
                if of_trait {
                    let tr = tcx.impl_trait_ref(did).instantiate_identity().skip_norm_wip();
                    o.put("trait", J::S(qname(tcx, tr.def_id)));
                    o.put("trait_ref", J::S(full(tr.print_only_trait_path())));
                }
                let l = loc(tcx, tcx.def_span(did));
                o.put("file", J::S(l.file));
                o.put("line", J::U(l.line as u128));
                let mut ms = Vec::new();
                for it in tcx.associated_items(did).in_definition_order() {
                    if it.is_fn() {
                        ms.push(J::S(it.name().to_string()));
                    }
                }
                o.put("methods", J::A(ms));
                let preds = tcx.predicates_of(did).instantiate_identity(tcx);
                let ps: Vec<J> = preds
                    .predicates
                    .iter()
                    .map(|p| J::S(full(p.skip_norm_wip())))
                    .collect();
                o.put("preds", J::A(ps));
                impls.push(o);
            }
            DefKind::Fn | DefKind::AssocFn => {
                let mut o = J::obj();
                o.put("q", J::S(qname(tcx, did)));
                o.put("vis", J::S(format!("{:?}", tcx.visibility(did))));
                let sig = tcx.fn_sig(did).instantiate_identity().skip_norm_wip();
                o.put("sig", J::S(full(sig)));
                let preds = tcx.predicates_of(did).instantiate_identity(tcx);
                let ps: Vec<J> = preds
                    .predicates
                    .iter()
                    .map(|p| J::S(full(p.skip_norm_wip())))
                    .collect();
                o.put("preds", J::A(ps));
                let l = loc(tcx, tcx.def_span(did));
                o.put("file", J::S(l.file));
                o.put("line", J::U(l.line as u128));
                fns.push(o);
            }
            _ => {}
        }
    }
}

fn extract(tcx: TyCtxt<'_>, dir: &str) {
    use rustc_session::config::CrateType;
    let krate = tcx.crate_name(LOCAL_CRATE).to_string();
    if krate == "build_script_build" || krate.starts_with("build_script_") {
        return;
    }
    if tcx.crate_types().iter().any(|t| matches!(t, CrateType::Executable)) {
        return;
    }
    if tcx.sess.opts.test {
        return;
    }
    KRATE.with(|k| *k.borrow_mut() = krate.clone());
    let mut root = J::obj();
    root.put("crate", J::S(krate.clone()));
    root.put("schema", J::U(1));

    // source files of the local crate (for freshness validation by the runner)
    let mut files = Vec::new();
    for f in tcx.sess.source_map().files().iter() {
        if f.cnum == LOCAL_CRATE {
            if let rustc_span::FileName::Real(r) = &f.name {
                if let Some(p) = r.local_path() {
                    files.push(J::S(p.to_string_lossy().to_string()));
                }
            }
        }
    }
    root.put("files", J::A(files));

    let (mut adts, mut traits, mut impls, mut fns) = (vec![], vec![], vec![], vec![]);
    item_facts(tcx, &mut adts, &mut traits, &mut impls, &mut fns);
    root.put("adts", J::A(adts));
    root.put("traits", J::A(traits));
    root.put("impls", J::A(impls));
    root.put("fns", J::A(fns));

    // Phase 1: clone every built MIR body before any query that could steal one
    // (constant evaluation / instance resolution may run later MIR passes).
    let mut cloned: Vec<(LocalDefId, Body<'_>)> = Vec::new();
    let mut skipped: Vec<J> = Vec::new();
    for def in tcx.hir_body_owners() {
        if wanted(tcx, def) {
            let steal = tcx.mir_built(def);
            if !steal.is_stolen() {
                let b: Body<'_> = steal.borrow().clone();
                cloned.push((def, b));
                continue;
            }
            // already consumed by a later pass (e.g. a const fn evaluated while building
            // another body): take the promoted MIR instead, or record the body as skipped
            let (p, _) = tcx.mir_promoted(def);
            if !p.is_stolen() {
                let b: Body<'_> = p.borrow().clone();
                cloned.push((def, b));
            } else {
                skipped.push(J::S(qname(tcx, def.to_def_id())));
            }
        }
    }
    // Phase 2: emit facts
    let mut bodies = Vec::new();
    let seen_adts = std::cell::RefCell::new(Vec::new());
    for (def, body) in cloned.iter() {
        if let Some(b) = body_facts(tcx, *def, body, &seen_adts) {
            bodies.push(b);
        }
    }
    // enums of other crates that local code matches on: variant tables are needed by the
    // DISPATCH / MIRROR rules
    let mut ext = seen_adts.into_inner();
    ext.sort_by_key(|d| (d.krate.as_u32(), d.index.as_u32()));
    ext.dedup();
    let mut ext_adts = Vec::new();
    for did in ext {
        if did.is_local() {
            continue;
        }
        let adt = tcx.adt_def(did);
        if !adt.is_enum() {
            continue;
        }
        let mut o = J::obj();
        o.put("q", J::S(qname(tcx, did)));
        o.put("kind", J::s("Enum"));
        o.put("ext", J::B(true));
        let mut vs = Vec::new();
        for v in adt.variants().iter() {
            let mut vo = J::obj();
            vo.put("n", J::S(v.name.to_string()));
            let fs: Vec<J> = v
                .fields
                .iter()
                .map(|f| {
                    let mut fo = J::obj();
                    fo.put("n", J::S(f.name.to_string()));
                    fo
                })
                .collect();
            vo.put("fields", J::A(fs));
            vs.push(vo);
        }
        o.put("variants", J::A(vs));
        ext_adts.push(o);
    }
    root.put("ext_adts", J::A(ext_adts));
    root.put("bodies", J::A(bodies));
    root.put("skipped", J::A(skipped));

    let mut out = String::new();
    root.write(&mut out);
    let _ = writeln!(out);
    let tmp = format!("{}/.{}.{}.tmp", dir, krate, std::process::id());
    let fin = format!("{}/{}.json", dir, krate);
    let _ = std::fs::create_dir_all(dir);
    std::fs::write(&tmp, out).expect("write facts");
    std::fs::rename(&tmp, &fin).expect("rename facts");
}
