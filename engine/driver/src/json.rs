// Minimal JSON value + writer (no dependencies).
pub enum J {
    S(String),
    U(u128),
    I(i128),
    B(bool),
    A(Vec<J>),
    O(Vec<(&'static str, J)>),
}

impl J {
    pub fn s(x: &str) -> J {
        J::S(x.to_string())
    }
    pub fn obj() -> J {
        J::O(Vec::new())
    }
    pub fn put(&mut self, k: &'static str, v: J) {
        if let J::O(items) = self {
            items.push((k, v));
        }
    }
    pub fn has(&self, k: &str) -> bool {
        if let J::O(items) = self {
            items.iter().any(|(n, _)| *n == k)
        } else {
            false
        }
    }
    pub fn write(&self, out: &mut String) {
        match self {
            J::S(s) => {
                out.push('"');
                for c in s.chars() {
                    match c {
                        '"' => out.push_str("\\\""),
                        '\\' => out.push_str("\\\\"),
                        '\n' => out.push_str("\\n"),
                        '\r' => out.push_str("\\r"),
                        '\t' => out.push_str("\\t"),
                        c if (c as u32) < 0x20 => out.push_str(&format!("\\u{:04x}", c as u32)),
                        c => out.push(c),
                    }
                }
                out.push('"');
            }
            J::U(u) => out.push_str(&u.to_string()),
            J::I(i) => out.push_str(&i.to_string()),
            J::B(b) => out.push_str(if *b { "true" } else { "false" }),
            J::A(items) => {
                out.push('[');
                for (i, it) in items.iter().enumerate() {
                    if i > 0 {
                        out.push(',');
                    }
                    it.write(out);
                }
                out.push(']');
            }
            J::O(items) => {
                out.push('{');
                for (i, (k, v)) in items.iter().enumerate() {
                    if i > 0 {
                        out.push(',');
                    }
                    out.push('"');
                    out.push_str(k);
                    out.push_str("\":");
                    v.write(out);
                }
                out.push('}');
            }
        }
    }
}
