"""Facts runner (DESIGN.md §4.1): builds the driver, runs it over /repo's current working
tree under `cargo +nightly check`, validates freshness, and loads the per-crate fact files.

Nothing here executes fuel-core code; the repository is only type-checked by the nightly
front end with the facts extractor injected as RUSTC_WORKSPACE_WRAPPER.
"""
import fcntl
import hashlib
import json
import os
import pickle
import re
import shutil
import subprocess
import sys
import time

VERIF = os.path.dirname(os.path.dirname(os.path.abspath(__file__)))
REPO = os.environ.get("VERIF_REPO", "/repo")
CACHE = os.environ.get("VERIF_CACHE", os.path.join(VERIF, ".cache"))
TARGET = os.path.join(CACHE, "target")
DRIVER_DIR = os.path.join(VERIF, "engine", "driver")
DRIVER_BIN = os.path.join(DRIVER_DIR, "target", "release", "verif-driver")
SHIM = os.path.join(VERIF, "engine", "shim", "rustc_shim.sh")

# Fixed package / feature set (DESIGN §3): `-p fuel-core` pulls in every library crate the
# properties are anchored in as workspace dependencies; the wrapper runs for each of them.
CONFIGS = {
    "default": ["-p", "fuel-core", "--lib", "--features", "p2p,relayer,rpc,shared-sequencer"],
    "fault-proving": ["-p", "fuel-core", "--lib", "--features",
                      "p2p,relayer,rpc,shared-sequencer,fault-proving"],
    # the snapshot (regenesis) file format: feature `parquet` of fuel-core-chain-config is enabled only by the node
    # binary, so the two library configurations above do not compile the parquet encoder / decoder / group reader
    "parquet": ["-p", "fuel-core-chain-config", "--lib", "--features", "parquet"],
}

# crate name -> cargo package name, counted from today's tree (fail closed if one is missing)
EXPECTED = {
    "fuel_core": "fuel-core",
    "fuel_core_block_aggregator_api": "fuel-core-block-aggregator-api",
    "fuel_core_chain_config": "fuel-core-chain-config",
    "fuel_core_compression": "fuel-core-compression",
    "fuel_core_compression_service": "fuel-core-compression-service",
    "fuel_core_consensus_module": "fuel-core-consensus-module",
    "fuel_core_database": "fuel-core-database",
    "fuel_core_executor": "fuel-core-executor",
    "fuel_core_gas_price_service": "fuel-core-gas-price-service",
    "fuel_core_importer": "fuel-core-importer",
    "fuel_core_metrics": "fuel-core-metrics",
    "fuel_core_p2p": "fuel-core-p2p",
    "fuel_core_poa": "fuel-core-poa",
    "fuel_core_producer": "fuel-core-producer",
    "fuel_core_provider": "fuel-core-provider",
    "fuel_core_relayer": "fuel-core-relayer",
    "fuel_core_services": "fuel-core-services",
    "fuel_core_shared_sequencer": "fuel-core-shared-sequencer",
    "fuel_core_storage": "fuel-core-storage",
    "fuel_core_sync": "fuel-core-sync",
    "fuel_core_syscall": "fuel-core-syscall",
    "fuel_core_tx_status_manager": "fuel-core-tx-status-manager",
    "fuel_core_txpool": "fuel-core-txpool",
    "fuel_core_types": "fuel-core-types",
    "fuel_core_upgradable_executor": "fuel-core-upgradable-executor",
    "fuel_gas_price_algorithm": "fuel-gas-price-algorithm",
}

# crates whose facts a configuration must produce (fail closed if one is missing)
EXPECTED_BY = {"parquet": ("fuel_core_chain_config", "fuel_core_storage", "fuel_core_types")}


def expected(config):
    names = EXPECTED_BY.get(config)
    return EXPECTED if names is None else {c: EXPECTED[c] for c in names}



class BuildError(Exception):
    pass


def log(msg):
    print(f"[facts] {msg}", file=sys.stderr, flush=True)


def nightly_sysroot():
    return subprocess.check_output(["rustc", "+nightly", "--print", "sysroot"], text=True).strip()


def sha_file(path, h=None):
    h = h or hashlib.sha256()
    try:
        with open(path, "rb") as f:
            while True:
                b = f.read(1 << 20)
                if not b:
                    break
                h.update(b)
    except OSError:
        h.update(b"<missing>")
    return h


def tree_hash():
    """Hash of every file cargo could read for the analysed packages."""
    h = hashlib.sha256()
    roots = [os.path.join(REPO, "crates"), os.path.join(REPO, "bin")]
    paths = [os.path.join(REPO, "Cargo.toml"), os.path.join(REPO, "Cargo.lock"),
             os.path.join(REPO, "rust-toolchain.toml")]
    for root in roots:
        for d, dirs, files in os.walk(root):
            dirs[:] = sorted(x for x in dirs if x not in ("target", ".git"))
            for f in sorted(files):
                paths.append(os.path.join(d, f))
    for p in paths:
        h.update(p.encode())
        h.update(b"\0")
        sha_file(p, h)
    return h.hexdigest()


def files_hash(files):
    h = hashlib.sha256()
    for p in sorted(files):
        full = p if os.path.isabs(p) else os.path.join(REPO, p)
        h.update(p.encode())
        h.update(b"\0")
        sha_file(full, h)
    return h.hexdigest()


def build_driver():
    """Build the extractor (offline, nightly, zero dependencies). Returns its sha256."""
    env = dict(os.environ, CARGO_NET_OFFLINE="true")
    r = subprocess.run(["cargo", "+nightly", "build", "--release", "--offline"], cwd=DRIVER_DIR,
                       env=env, stdout=subprocess.PIPE, stderr=subprocess.STDOUT, text=True)
    if r.returncode != 0:
        raise BuildError("driver build failed:\n" + r.stdout[-4000:])
    return sha_file(DRIVER_BIN).hexdigest()


FACTS_TAG = os.environ.get("VERIF_FACTS_TAG", "")


def facts_dir(config):
    # a tag separates the facts of an alternative source tree (VERIF_REPO) from those of /repo
    return os.path.join(CACHE, "facts", (FACTS_TAG + "-" if FACTS_TAG else "") + config)


def _remove_fingerprints(pkgs):
    fp = os.path.join(TARGET, "debug", ".fingerprint")
    if not os.path.isdir(fp):
        return
    pats = [re.compile("^" + re.escape(p) + "-[0-9a-f]{16}$") for p in pkgs]
    for d in os.listdir(fp):
        if any(p.match(d) for p in pats):
            shutil.rmtree(os.path.join(fp, d), ignore_errors=True)


def _run_cargo(config):
    env = dict(os.environ)
    env.update({
        "CARGO_NET_OFFLINE": "true",
        "LD_LIBRARY_PATH": nightly_sysroot() + "/lib:" + os.environ.get("LD_LIBRARY_PATH", ""),
        "RUSTC_WRAPPER": SHIM,
        "RUSTC_WORKSPACE_WRAPPER": DRIVER_BIN,
        "CARGO_TARGET_DIR": TARGET,
        "VERIF_FACTS_DIR": facts_dir(config),
        "CARGO_TERM_COLOR": "never",
    })
    env.pop("RUSTFLAGS", None)
    cmd = ["cargo", "+nightly", "check", "--offline"] + CONFIGS[config]
    t = time.time()
    r = subprocess.run(cmd, cwd=REPO, env=env, stdout=subprocess.PIPE, stderr=subprocess.STDOUT,
                       text=True)
    log(f"cargo check [{config}] exit={r.returncode} in {time.time() - t:.1f}s")
    return r


def ensure(config="default", force=False):
    """Make the fact files of `config` correspond to /repo's current working tree.
    Returns the state dict {tree, driver, crates:{name:{files_hash}}}."""
    os.makedirs(facts_dir(config), exist_ok=True)
    lock_path = os.path.join(CACHE, "facts.lock")
    with open(lock_path, "w") as lk:
        fcntl.flock(lk, fcntl.LOCK_EX)
        return _ensure_locked(config, force)


def _ensure_locked(config, force):
    EXPECTED = expected(config)
    fdir = facts_dir(config)
    state_path = os.path.join(fdir, "STATE.json")
    state = {}
    if os.path.exists(state_path):
        try:
            state = json.load(open(state_path))
        except Exception:
            state = {}
    if not os.path.exists(DRIVER_BIN):
        log("building driver")
        build_driver()
    driver = sha_file(DRIVER_BIN).hexdigest()
    tree = tree_hash()
    have_all = all(os.path.exists(os.path.join(fdir, c + ".json")) for c in EXPECTED)
    if (not force and state.get("driver") == driver and state.get("tree") == tree and have_all
            and state.get("ok")):
        return state

    stale = []
    if force or state.get("driver") != driver:
        stale = list(EXPECTED)
        log("full re-extraction (forced or driver changed)")
    else:
        for c in EXPECTED:
            f = os.path.join(fdir, c + ".json")
            rec = state.get("crates", {}).get(c)
            if not os.path.exists(f) or not rec:
                stale.append(c)
                continue
            if files_hash(rec["files"]) != rec["files_hash"]:
                stale.append(c)
        # a new/removed source file changes the module tree: caught by cargo's dep-info; to be
        # safe any change outside the recorded file lists marks the owning package stale too
        log(f"stale crates by source hash: {stale}")
    for c in stale:
        try:
            os.remove(os.path.join(fdir, c + ".json"))
        except OSError:
            pass
        for ext in (".pickle", ".idx", ".bodies"):
            try:
                os.remove(os.path.join(fdir, c + ext))
            except OSError:
                pass
    _remove_fingerprints([EXPECTED[c] for c in stale])

    state = {"driver": driver, "tree": tree, "ok": False, "crates": {}, "config": config}
    json.dump(state, open(state_path, "w"))
    r = _run_cargo(config)
    if r.returncode != 0:
        state["build_log"] = r.stdout[-6000:]
        json.dump(state, open(state_path, "w"))
        raise BuildError("cargo +nightly check failed on the current tree:\n" + r.stdout[-6000:])
    missing = [c for c in EXPECTED if not os.path.exists(os.path.join(fdir, c + ".json"))]
    if missing:
        # cargo considered them fresh although their facts are absent: force and retry once
        log(f"facts missing after cargo run, forcing: {missing}")
        _remove_fingerprints([EXPECTED[c] for c in missing])
        r = _run_cargo(config)
        missing = [c for c in EXPECTED if not os.path.exists(os.path.join(fdir, c + ".json"))]
        if r.returncode != 0 or missing:
            raise BuildError(f"fact files missing after extraction: {missing}\n" + r.stdout[-3000:])
    # record per-crate file lists and hashes; validate that they describe the current tree
    for c in EXPECTED:
        f = os.path.join(fdir, c + ".json")
        files = _read_files_list(f)
        state["crates"][c] = {"files": files, "files_hash": files_hash(files)}
    if tree_hash() != tree:
        raise BuildError("source tree changed while extracting facts")
    # build the per-crate header index + lazily loadable body blobs while holding the lock
    for c in EXPECTED:
        load_crate(config, c)
    state["ok"] = True
    state["extracted_at"] = time.time()
    json.dump(state, open(state_path, "w"))
    return state


def _read_files_list(path):
    # the "files" array is near the start of the file; parse only the head
    with open(path) as f:
        head = f.read(1 << 16)
    m = re.search(r'"files":(\[[^\]]*\])', head)
    if not m:
        data = json.load(open(path))
        files = data["files"]
    else:
        files = json.loads(m.group(1))
    out = []
    for p in files:
        if p.startswith(REPO + "/"):
            p = p[len(REPO) + 1:]
        if p.startswith("/"):
            if TARGET in p or "/.cargo/" in p or "/rustlib/" in p:
                continue
        out.append(p)
    return out


def _body_header(b):
    """light summary of a body used to pre-filter without loading its MIR"""
    callees, fnrefs, adts = set(), set(), set()

    def scan_op(op):
        if not isinstance(op, dict):
            return
        if op.get("k") == "fn":
            fnrefs.add(op["fn"]["path"])
            if op["fn"].get("res"):
                fnrefs.add(op["fn"]["res"])
        for a in op.get("fa", ()) or ():
            if a:
                adts.add(a)

    for bl in b["blocks"]:
        if bl.get("cleanup"):
            continue
        for st in bl.get("s", ()):
            if st.get("k") == "assign":
                scan_op(st["pl"])
                rv = st["rv"]
                for key in ("op", "a", "b", "pl"):
                    if key in rv:
                        scan_op(rv[key])
                for o in rv.get("ops", ()):
                    scan_op(o)
                if rv.get("adt"):
                    adts.add(rv["adt"])
        t = bl["t"]
        if t["k"] in ("call", "tailcall"):
            f = t["f"]
            if f.get("k") == "fn":
                callees.add(f["fn"]["path"])
                if f["fn"].get("res"):
                    callees.add(f["fn"]["res"])
            else:
                scan_op(f)
            for a in t.get("args", ()):
                scan_op(a)
            if t.get("dest"):
                scan_op(t["dest"])
    h = {k: b.get(k) for k in ("def", "unit", "kind", "file", "line", "end_line", "argc", "impl_self", "impl_trait")}
    h["callees"] = frozenset(callees)
    h["fnrefs"] = frozenset(fnrefs)
    h["adts"] = frozenset(adts)
    h["nblocks"] = len(b["blocks"])
    return h


def load_crate(config, crate):
    """Load one crate's facts as (meta, headers, blob_path): item tables + one light header per
    body; the MIR of a body is unpickled lazily from blob_path[off:off+len]. Cached next to the
    json, keyed by the json's mtime+size."""
    fdir = facts_dir(config)
    jp = os.path.join(fdir, crate + ".json")
    ip = os.path.join(fdir, crate + ".idx")
    bp = os.path.join(fdir, crate + ".bodies")
    st = os.stat(jp)
    key = (st.st_mtime_ns, st.st_size, 2)
    if os.path.exists(ip) and os.path.exists(bp):
        try:
            with open(ip, "rb") as f:
                k, meta, headers = pickle.load(f)
            if k == key:
                return meta, headers, bp
        except Exception:
            pass
    import gc
    gc.disable()
    try:
        data = json.load(open(jp))
        headers = []
        tmpb = bp + f".{os.getpid()}.tmp"
        with open(tmpb, "wb") as bf:
            off = 0
            for b in data["bodies"]:
                blob = pickle.dumps(b, protocol=pickle.HIGHEST_PROTOCOL)
                h = _body_header(b)
                h["off"] = off
                h["len"] = len(blob)
                bf.write(blob)
                off += len(blob)
                headers.append(h)
        meta = {k: v for k, v in data.items() if k != "bodies"}
        tmpi = ip + f".{os.getpid()}.tmp"
        with open(tmpi, "wb") as f:
            pickle.dump((key, meta, headers), f, protocol=pickle.HIGHEST_PROTOCOL)
        os.replace(tmpb, bp)
        os.replace(tmpi, ip)
    finally:
        gc.enable()
    return meta, headers, bp


if __name__ == "__main__":
    cfg = sys.argv[1] if len(sys.argv) > 1 else "default"
    force = "--force" in sys.argv
    try:
        if "--build-driver" in sys.argv:
            build_driver()
        s = ensure(cfg, force=force)
        print(json.dumps({k: v for k, v in s.items() if k != "crates"}))
    except BuildError as e:
        print(str(e), file=sys.stderr)
        sys.exit(2)
