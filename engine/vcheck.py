"""vcheck: evaluate the static rules of one property on /repo's current working tree."""
import argparse
import importlib.util
import json
import os
import sys
import time

HERE = os.path.dirname(os.path.abspath(__file__))
VERIF = os.path.dirname(HERE)
sys.path.insert(0, HERE)
import facts as factsmod  # noqa: E402
from core import Facts  # noqa: E402
from rules import Ctx  # noqa: E402


def load_rules(pid):
    path = os.path.join(VERIF, "rules", f"{pid}.py")
    if not os.path.exists(path):
        raise SystemExit(f"no rules for {pid}")
    spec = importlib.util.spec_from_file_location(f"rules_{pid}", path)
    mod = importlib.util.module_from_spec(spec)
    spec.loader.exec_module(mod)
    return mod


def known_findings():
    out = []
    p = os.path.join(VERIF, "known_findings.jsonl")
    if os.path.exists(p):
        for l in open(p):
            l = l.strip()
            if l and not l.startswith("#"):
                out.append(json.loads(l))
    return out


def run_config(pid, mod, config, tier, force):
    state = factsmod.ensure(config, force=force)
    F = Facts(config, state)
    ctx = Ctx(pid, F, tier)
    ctx.config = config
    # a rule module may name further build configurations and the function that checks each
    # (EXTRA_CONFIGS = {"parquet": check_parquet}); the library configurations run check()
    getattr(mod, "EXTRA_CONFIGS", {}).get(config, mod.check)(ctx)
    return ctx, state


def main():
    ap = argparse.ArgumentParser()
    ap.add_argument("pid", nargs="?")
    ap.add_argument("--tier", default=os.environ.get("VERIF_TIER", "quick"))
    ap.add_argument("--replay")
    ap.add_argument("--verbose", "-v", action="store_true")
    ap.add_argument("--no-evidence", action="store_true")
    args = ap.parse_args()
    t0 = time.time()
    seed = int(os.environ.get("VERIF_SEED", "0") or 0)

    only = None
    if args.replay:
        rep = json.load(open(args.replay))
        args.pid = rep["property"]
        only = rep["key"]
        ro = rep.get("obligation", {})
        print(f"REPLAY {args.replay}")
        print(f"  recorded on tree {rep.get('tree')} ({rep.get('tier')}): [{ro.get('kind')}] {ro.get('id')} ({ro.get('config')})")
        print(f"  {ro.get('detail')}")
        for s_ in ro.get("sites", [])[:8]:
            print(f"    site: {s_}")
        if ro.get("witness"):
            print(f"    witness: {json.dumps(ro['witness'])[:1500]}")
        print("  re-evaluating that rule instance on the current tree ...")
    pid = args.pid
    if not pid:
        ap.error("property id required")
    tier = "thorough" if args.tier == "thorough" else "quick"
    mod = load_rules(pid)

    configs = ["default"]
    if tier == "thorough":
        configs.append("fault-proving")
    configs += [c for c in getattr(mod, "EXTRA_CONFIGS", {}) if c not in configs]
    all_obs = []
    states = {}
    stats = None
    try:
        for cfg in configs:
            force = False
            if tier == "thorough":
                # one forced full re-extraction per tree generation (shared by all properties)
                st = {}
                sp = os.path.join(factsmod.facts_dir(cfg), "STATE.json")
                if os.path.exists(sp):
                    try:
                        st = json.load(open(sp))
                    except Exception:
                        st = {}
                force = not (st.get("ok") and st.get("tree") == factsmod.tree_hash()
                             and st.get("forced_tree") == st.get("tree"))
            ctx, state = run_config(pid, mod, cfg, tier, force)
            if force:
                state["forced_tree"] = state["tree"]
                json.dump(state, open(os.path.join(factsmod.facts_dir(cfg), "STATE.json"), "w"))
            states[cfg] = state
            for ob in ctx.obligations:
                ob["config"] = cfg
                all_obs.append(ob)
            if stats is None or cfg in ("default", "fault-proving"):
                stats = ctx.F.stats()
    except factsmod.BuildError as e:
        print(f"ERROR: cannot extract facts from the current tree: {e}", file=sys.stderr)
        sys.exit(2)

    # witnesses (type-level) are run by rules through ctx; known findings
    kf = [k for k in known_findings() if k.get("property") == pid]
    known_keys = {k["key"]: k for k in kf if k.get("status") == "known"}
    violations = []
    known_hit = []
    for ob in all_obs:
        if ob["ok"]:
            continue
        if only is not None and ob["key"] != only:
            continue
        if ob["key"] in known_keys:
            known_hit.append(ob)
        else:
            violations.append(ob)

    out_dir = os.path.join(VERIF, "out", "violations", pid)
    os.makedirs(out_dir, exist_ok=True)
    for f in ([] if only is not None else os.listdir(out_dir)):
        try:
            os.remove(os.path.join(out_dir, f))
        except OSError:
            pass

    n = len(all_obs)
    n_ok = sum(1 for o in all_obs if o["ok"])
    print(f"== {pid} [{tier}] configs={configs} obligations={n} discharged={n_ok} "
          f"crates={len(stats['crates_loaded'])} bodies={stats['bodies_analysed']}/{stats['bodies']} call_sites={stats['call_sites_indexed']}")
    for ob in all_obs:
        if args.verbose or not ob["ok"]:
            mark = "ok  " if ob["ok"] else "FAIL"
            print(f"  [{mark}] {ob['id']} {ob['kind']} ({ob['config']}): {ob['detail'][:300]}")
            if args.verbose and ob["sites"]:
                for s in ob["sites"][:4]:
                    print(f"           site: {s}")
            if not ob["ok"] and ob.get("witness"):
                print(f"           witness: {json.dumps(ob['witness'])[:400]}")
    seen_known = set()
    for ob in known_hit:
        if ob["key"] in seen_known:
            continue
        seen_known.add(ob["key"])
        print(f"KNOWN-FINDING: property={pid} {ob['key']} — {known_keys[ob['key']].get('what', '')}")
    seen = set()
    for i, ob in enumerate(violations):
        if ob["key"] in seen:
            continue
        seen.add(ob["key"])
        safe = "".join(ch if ch.isalnum() or ch in "._-" else "_" for ch in ob["key"])[:150]
        path = os.path.join(out_dir, f"{safe}.json")
        json.dump({"property": pid, "key": ob["key"], "obligation": ob, "tier": tier,
                   "tree": states[ob["config"]].get("tree")}, open(path, "w"), indent=1)
        print(f"VIOLATION property={pid} replay={path}")

    if only is not None:
        same = [o for o in all_obs if o["key"] == only]
        if not same:
            print(f"REPLAY-RESULT: the rule instance {only} no longer exists on this tree (its anchor changed); run the full check")
        elif violations:
            print(f"REPLAY-RESULT: still violated on the current tree")
        else:
            print(f"REPLAY-RESULT: holds on the current tree")
    if not args.no_evidence and only is None:
        write_evidence(pid, mod, tier, seed, all_obs, violations, known_hit, stats, states, configs, time.time() - t0)
    sys.exit(1 if violations else 0)


def write_evidence(pid, mod, tier, seed, obs, violations, known_hit, stats, states, configs, wall):
    nontrivial = [o for o in obs if o["n_sites"] > 0]
    distinct = len({(o["id"], o["kind"], tuple(o["sites"])) for o in nontrivial})
    samples = []
    for o in nontrivial[:8]:
        samples.append({"obligation": o["id"], "rule": o["kind"], "ok": o["ok"], "what": o["detail"][:200], "sites": o["sites"][:4]})
    if not samples:
        samples = [{"obligation": o["id"], "rule": o["kind"], "ok": o["ok"], "what": o["detail"][:200]} for o in obs[:4]]
    n_dis = sum(1 for o in obs if o["ok"])
    ev = {
        "property_id": pid,
        "tier": tier,
        "seed": seed,
        "level": getattr(mod, "LEVEL", "other"),
        "coverage": {
            "explanation": getattr(mod, "EXPLANATION", "").strip() or "static structural rules, see DESIGN.md",
            "not_decided": getattr(mod, "NOT_DECIDED", "").strip(),
            "obligations": len(obs),
            "discharged": n_dis,
            "evaluations": max(1, len(obs)),
            "distinct_nontrivial": distinct,
            "rule": "one evaluation = one rule instance (obligation) evaluated on the MIR facts of the current tree; "
                    "non-trivial = the instance matched at least one concrete site (call / write / switch) in the analysed bodies; "
                    "distinct = distinct (instance, matched-site-list) pairs",
            "samples": samples,
            "exhaustive": True,
            "checker_cmd": f"bin/vcheck {pid} --tier {tier}",
            "trusted_base": ["rustc nightly front end + MIR builder (mir_built)", "engine/driver facts extractor",
                             "engine/core.py + engine/rules.py", f"rules/{pid}.py instance table"],
            "configurations": configs,
            "facts_tree_hash": {c: states[c].get("tree") for c in configs},
            "crates_loaded": stats["crates_loaded"],
            "bodies_in_loaded_crates": stats["bodies"],
            "bodies_analysed": stats["bodies_analysed"],
            "call_sites_indexed": stats["call_sites_indexed"],
            "rule_kinds": sorted({o["kind"] for o in obs}),
            "known_findings_reported": sorted({o["key"] for o in known_hit}),
            "violation_keys": sorted({o["key"] for o in violations}),
        },
        "assumptions": [
            "MIR is taken from rustc nightly (1.97) while the product is built with 1.93; only front-end facts (resolution, unoptimised CFG shape) are used",
            "analysed configuration: library targets, non-test, features p2p,relayer,rpc,shared-sequencer (+fault-proving in thorough); code under cfg(feature=\"wasm-executor\") / test-helpers is not analysed"
            + ("; additionally fuel-core-chain-config with feature parquet (the snapshot file format)" if "parquet" in configs else ""),
            "each rule decides a structural necessary condition of the property, not the behavioural statement itself",
        ],
        "wall_s": round(wall, 3),
        "violations": len({o["key"] for o in violations}),
    }
    os.makedirs(os.path.join(VERIF, "evidence"), exist_ok=True)
    tmp = os.path.join(VERIF, "evidence", f".{pid}.{os.getpid()}.tmp")
    json.dump(ev, open(tmp, "w"), indent=1)
    os.replace(tmp, os.path.join(VERIF, "evidence", f"{pid}.json"))


if __name__ == "__main__":
    main()
