"""facts query helper (development aid): vq units|calls|body|callers|switches ..."""
import json, sys, os, fnmatch
sys.path.insert(0, os.path.dirname(os.path.abspath(__file__)))
from core import *
import facts as factsmod

def fmt_op(b, op):
    if op is None: return "-"
    k = op.get("k")
    if k == "const": return f"const {op.get('v', op.get('s'))}"
    if k == "fn": return f"fn {op['fn']['path']}"
    if k == "other": return "?"
    return ("mv " if k == "move" else "") + place_str(b, op)

def fmt_rv(b, rv):
    k = rv["k"]
    if k in ("use", "repeat"): return fmt_op(b, rv["op"])
    if k == "cast": return f"{fmt_op(b, rv['op'])} as {rv['t'][:40]}"
    if k in ("ref", "rawptr"): return ("&mut " if rv.get("mut") else "&") + place_str(b, rv["pl"])
    if k == "bin": return f"{rv['op']}({fmt_op(b, rv['a'])}, {fmt_op(b, rv['b'])})"
    if k == "un": return f"{rv['op']}({fmt_op(b, rv['a'])})"
    if k == "discr": return f"discr({place_str(b, rv['pl'])}) [{rv.get('adt')}]"
    if k == "agg":
        if rv.get("ak") == "adt": return f"{rv['adt'].split('::')[-1]}::{rv['variant']}{{{', '.join(fmt_op(b,o) for o in rv['ops'])}}}"
        if rv.get("ak") in ("closure","coroutine","coroutine_closure"): return f"{rv['ak']} {rv['def']} [{', '.join(fmt_op(b,o) for o in rv['ops'])}]"
        return f"{rv.get('ak')}({', '.join(fmt_op(b,o) for o in rv['ops'])})"
    return rv.get("s", k)[:80]

def dump_body(b, cleanup=False):
    print(f"## {b.defq}  [{b.kind}] {b.file}:{b.line}  impl_self={b.impl_self} impl_trait={b.impl_trait}")
    for i, bl in enumerate(b.blocks):
        if bl.get("cleanup") or i not in b.live: continue
        for s in bl.get("s", []):
            if s["k"] == "assign":
                print(f"   bb{i}: {place_str(b, s['pl'])} = {fmt_rv(b, s['rv'])}   # {s.get('line')}")
            else:
                print(f"   bb{i}: {json.dumps(s)[:160]}")
        t = bl["t"]; k = t["k"]
        if k == "call":
            f = t["f"]
            name = f["fn"]["path"] if f.get("k") == "fn" else "indirect " + fmt_op(b, f)
            res = f.get("fn", {}).get("res") if f.get("k") == "fn" else None
            print(f" bb{i}: {place_str(b, t['dest'])} = CALL {name}({', '.join(fmt_op(b,a) for a in t['args'])}) -> bb{t.get('t')}   # {t.get('line')}" + (f"  res={res}" if res else "") + (f"  [{t.get('exp')}]" if t.get('exp') else ""))
        elif k == "switch":
            print(f" bb{i}: SWITCH {fmt_op(b, t['d'])} [{t.get('dt')}] {t['arms']} otherwise bb{t['otherwise']}   # {t.get('line')}")
        elif k in ("goto", "drop", "falseedge", "yield"):
            print(f" bb{i}: {k} -> bb{t.get('t')}" + (" (loop)" if t.get("loop") else ""))
        elif k == "assert":
            print(f" bb{i}: ASSERT {fmt_op(b,t['cond'])}=={t['expected']} {t['msg'].get('k')} -> bb{t.get('t')}  # {t.get('line')}")
        else:
            print(f" bb{i}: {k}")

def main():
    cmd = sys.argv[1]
    cfg = os.environ.get("VQ_CONFIG", "default")
    F = Facts(cfg)
    if cmd == "units":
        crate, glob = sys.argv[2], sys.argv[3]
        for u in F.find_units(glob, crate):
            print(u.q, len(u.bodies), u.root.file, u.root.line, u.root.impl_self)
    elif cmd == "calls":
        q = sys.argv[2]
        for u in F.units(q):
            print(f"# {u.q} impl_self={u.root.impl_self} {u.root.file}:{u.root.line}")
            for b in u.bodies:
                for c in b.calls:
                    if c.bb in b.live and not (len(sys.argv) > 3 and sys.argv[3] not in c.path):
                        print(f"  {b.defq.split('::')[-1]:14} bb{c.bb:<4} L{c.line:<5} {c.path}" + (f"  => {c.res}" if c.res else "") + (f"   [{c.exp}]" if c.exp and 'desugaring' not in c.exp else ""))
    elif cmd == "body":
        q = sys.argv[2]
        for cn in F.crate_candidates(q):
          for b in F.crate(cn)["bodies"]:
            if b.defq == q or (q.endswith("*") and fnmatch.fnmatchcase(b.defq, q)):
                dump_body(b)
    elif cmd == "callers":
        crates, glob = sys.argv[2].split(","), sys.argv[3]
        if crates == ["all"]: crates = list(factsmod.EXPECTED)
        for cn in crates:
            for b in F.crate(cn)["bodies"]:
                for c in b.calls:
                    if c.bb in b.live and c.is_path(glob):
                        print(f"{b.defq}  {b.file}:{c.line}  {c.path} self={c.self_ty and c.self_ty[:80]} targs={[t[-50:] for t in c.targs]}")
    elif cmd == "adt":
        print(json.dumps(F.adt(sys.argv[2]), indent=1))
    elif cmd == "impls":
        for i in F.impls(sys.argv[2], trait=sys.argv[3] if len(sys.argv) > 3 else None):
            print(i["self"], "|", i.get("trait_ref"), i["methods"], i["file"], i["line"])

main()
