"""Rule engine core (DESIGN.md §4.2 / §5): fact model, CFG queries, origin (def-use) analysis.

Everything here works on the JSON facts emitted by engine/driver from `mir_built`; no
fuel-core code is executed.
"""
import fnmatch
import os
import sys
from collections import defaultdict, deque

sys.path.insert(0, os.path.dirname(os.path.abspath(__file__)))
import facts as factsmod  # noqa: E402


class AnchorMissing(Exception):
    pass


# ---------------------------------------------------------------------------------------
# operands / places


def op_local(op):
    """local index of a copy/move operand or place dict, else None"""
    if op is None:
        return None
    if op.get("k") in ("copy", "move") or ("l" in op and "k" not in op):
        return op["l"]
    return None


def place_fields(pl):
    """list of (adt_qname, field_name) for every ADT field step in a place projection"""
    out = []
    fa = pl.get("fa") or []
    i = 0
    for p in pl.get("p", []):
        if p.startswith("."):
            adt = fa[i] if i < len(fa) else ""
            i += 1
            out.append((adt, p[1:]))
    return out


def place_str(body, pl):
    n = body.local_name(pl["l"])
    s = n if n else f"_{pl['l']}"
    for p in pl.get("p", []):
        s += p if p != "*" else ".*"
    return s


# ---------------------------------------------------------------------------------------


class Call:
    __slots__ = ("body", "bb", "path", "res", "trait", "self_ty", "targs", "args", "dest", "line",
                 "exp", "target", "self_closure", "indirect", "fn")

    def __init__(self, body, bb, term):
        self.body = body
        self.bb = bb
        f = term["f"]
        self.indirect = f.get("k") != "fn"
        fn = f.get("fn", {}) if not self.indirect else {}
        self.fn = fn
        self.path = fn.get("path", "<indirect>")
        self.res = fn.get("res")
        self.trait = fn.get("trait")
        self.self_ty = fn.get("self")
        self.self_closure = fn.get("self_closure")
        self.targs = fn.get("targs", [])
        self.args = term.get("args", [])
        self.dest = term.get("dest")
        self.line = term.get("line")
        self.exp = term.get("exp")
        self.target = term.get("t")

    @property
    def name(self):
        return self.path.rsplit("::", 1)[-1]

    def is_path(self, *specs):
        """spec: exact qname, or glob with '*'; matched against trait path and resolved path"""
        for s in specs:
            for cand in (self.path, self.res):
                if cand is None:
                    continue
                if s == cand or ("*" in s and fnmatch.fnmatchcase(cand, s)):
                    return True
        return False

    def site(self):
        return f"{self.body.defq}@call:{self.path}"

    def where(self):
        return f"{self.body.file}:{self.line}"

    def __repr__(self):
        return f"<call {self.path} in {self.body.defq} bb{self.bb} {self.where()}>"


class Body:
    """One MIR body. Constructed from a light header; the MIR itself (`raw`) is unpickled on
    first use."""

    def __init__(self, header, crate, blob_path):
        self.h = header
        self.crate = crate
        self._blob_path = blob_path
        self._raw = None
        self.defq = header["def"]
        self.unit = header["unit"]
        self.kind = header["kind"]
        self.file = header["file"]
        self.line = header["line"]
        self.end_line = header.get("end_line")
        self.argc = header["argc"]
        self.impl_self = header.get("impl_self")
        self.impl_trait = header.get("impl_trait")
        self.callees = header["callees"]
        self.fnref_paths = header["fnrefs"]
        self.adts_touched = header["adts"]
        self._succs = None
        self._preds = None
        self._calls = None
        self._defs = None
        self._reach0 = None
        self._upvars = None

    @property
    def raw(self):
        if self._raw is None:
            import pickle
            with open(self._blob_path, "rb") as f:
                f.seek(self.h["off"])
                self._raw = pickle.loads(f.read(self.h["len"]))
        return self._raw

    @property
    def locals(self):
        return self.raw["locals"]

    @property
    def blocks(self):
        return self.raw["blocks"]

    def may_call(self, specs):
        """cheap pre-filter on the header: could this body contain a call / fn reference
        matching one of specs (exact or glob)?"""
        for s in specs:
            if "*" in s:
                for c in self.callees:
                    if fnmatch.fnmatchcase(c, s):
                        return True
                for c in self.fnref_paths:
                    if fnmatch.fnmatchcase(c, s):
                        return True
            elif s in self.callees or s in self.fnref_paths:
                return True
        return False

    # ---- CFG -------------------------------------------------------------------------
    def succs(self, bb):
        if self._succs is None:
            self._build_cfg()
        return self._succs[bb]

    def preds(self, bb):
        if self._preds is None:
            self._build_cfg()
        return self._preds[bb]

    def _build_cfg(self):
        n = len(self.blocks)
        succs = [[] for _ in range(n)]
        for i, b in enumerate(self.blocks):
            t = b["t"]
            k = t["k"]
            if k == "goto":
                succs[i].append((t["t"], "goto"))
            elif k == "switch":
                for v, tb in t["arms"]:
                    succs[i].append((tb, ("sw", v)))
                succs[i].append((t["otherwise"], ("sw", "otherwise")))
            elif k in ("drop", "assert", "yield"):
                succs[i].append((t["t"], k))
            elif k == "call":
                if t.get("t") is not None:
                    succs[i].append((t["t"], "ret"))
            elif k == "falseedge":
                succs[i].append((t["t"], "real"))
            elif k == "asm":
                for tb in t.get("ts", []):
                    succs[i].append((tb, "asm"))
        # `Err(e)?` / `None?`: Try::branch of a value built as the failing variant never takes
        # the Continue edge — drop that edge (sound refinement of the CFG)
        try:
            self._prune_constant_try_edges(succs)
        except Exception:
            pass
        preds = [[] for _ in range(n)]
        for i, ss in enumerate(succs):
            for (tb, lab) in ss:
                preds[tb].append((i, lab))
        self._succs = succs
        self._preds = preds

    def _prune_constant_try_edges(self, succs):
        bad = {("core::result::Result", "Err"), ("core::option::Option", "None")}
        for i, b in enumerate(self.blocks):
            t = b["t"]
            if t["k"] != "call" or t["f"].get("k") != "fn" or t["f"]["fn"]["path"] != "core::ops::try_trait::Try::branch":
                continue
            args = t.get("args", [])
            if not args:
                continue
            l = op_local(args[0])
            seen = set()
            const_fail = False
            while l is not None and l not in seen:
                seen.add(l)
                ds = [(bb, s) for bb, bl in enumerate(self.blocks) if not bl.get("cleanup") for s in bl.get("s", [])
                      if s["k"] == "assign" and s["pl"]["l"] == l and not s["pl"].get("p")]
                calls_def = [bl for bl in self.blocks if bl["t"]["k"] == "call" and bl["t"].get("dest", {}).get("l") == l]
                if len(ds) != 1 or calls_def:
                    break
                rv = ds[0][1]["rv"]
                if rv["k"] == "agg" and rv.get("ak") == "adt" and (rv["adt"], rv["variant"]) in bad:
                    const_fail = True
                    break
                if rv["k"] == "use" and op_local(rv["op"]) is not None and not rv["op"].get("p"):
                    l = op_local(rv["op"])
                    continue
                break
            if not const_fail or t.get("t") is None:
                continue
            tb = t["t"]
            tt = self.blocks[tb]["t"]
            if tt["k"] == "switch":
                succs[tb] = [(x, lab) for (x, lab) in succs[tb] if lab != ("sw", 0)]

    def reach(self, starts, cut_blocks=(), cut_edges=()):
        """blocks reachable from `starts` (inclusive) without entering cut_blocks or using
        cut_edges ((bb, label) pairs or (bb, label, target) triples)."""
        cut_blocks = set(cut_blocks)
        cut_edges = set(cut_edges)
        seen = set()
        dq = deque(s for s in starts if s not in cut_blocks)
        seen.update(dq)
        while dq:
            b = dq.popleft()
            for (tb, lab) in self.succs(b):
                if tb in seen or tb in cut_blocks:
                    continue
                if (b, lab) in cut_edges or (b, lab, tb) in cut_edges:
                    continue
                seen.add(tb)
                dq.append(tb)
        return seen

    def path(self, starts, goals, cut_blocks=(), cut_edges=()):
        """a shortest witness path (list of blocks) from starts to any goal, or None"""
        cut_blocks = set(cut_blocks)
        cut_edges = set(cut_edges)
        goals = set(goals)
        prev = {}
        dq = deque()
        for s in starts:
            if s in cut_blocks:
                continue
            prev[s] = None
            dq.append(s)
        while dq:
            b = dq.popleft()
            if b in goals:
                out = []
                while b is not None:
                    out.append(b)
                    b = prev[b]
                return list(reversed(out))
            for (tb, lab) in self.succs(b):
                if tb in prev or tb in cut_blocks:
                    continue
                if (b, lab) in cut_edges or (b, lab, tb) in cut_edges:
                    continue
                prev[tb] = b
                dq.append(tb)
        return None

    @property
    def live(self):
        """blocks reachable from entry"""
        if self._reach0 is None:
            self._reach0 = self.reach([0])
        return self._reach0

    def return_blocks(self):
        return [i for i in self.live if self.blocks[i]["t"]["k"] == "return"]

    def describe_path(self, p):
        return [f"bb{b}@{self.blocks[b]['t'].get('line')}" for b in p]

    # ---- contents --------------------------------------------------------------------
    @property
    def calls(self):
        if self._calls is None:
            self._calls = []
            for i, b in enumerate(self.blocks):
                if b.get("cleanup"):
                    continue
                t = b["t"]
                if t["k"] in ("call", "tailcall"):
                    self._calls.append(Call(self, i, t))
        return self._calls

    def calls_to(self, *specs, live_only=True):
        if self._calls is None and not self.may_call(specs):
            return []
        return [c for c in self.calls if c.is_path(*specs) and (not live_only or c.bb in self.live)]

    def stmts(self):
        """yield (bb, idx, stmt) over non-cleanup blocks"""
        for i, b in enumerate(self.blocks):
            if b.get("cleanup"):
                continue
            for j, s in enumerate(b.get("s", [])):
                yield i, j, s

    def local_name(self, l):
        return self.locals[l].get("n")

    def local_ty(self, l):
        return self.locals[l]["t"]

    def locals_named(self, name):
        return [i for i, l in enumerate(self.locals) if l.get("n") == name]

    @property
    def upvars(self):
        """closure/coroutine env field index -> captured variable name"""
        if self._upvars is None:
            m = {}
            for d in self.raw.get("dbg", []):
                pl = d["pl"]
                if pl["l"] == 1:
                    for p in pl.get("p", []):
                        if p.startswith(".") and p[1:].isdigit():
                            m[int(p[1:])] = d["n"]
                            break
            self._upvars = m
        return self._upvars

    # ---- def-use ---------------------------------------------------------------------
    @property
    def defs(self):
        """local -> list of definitions: ('assign', bb, idx, place, rvalue) for statements
        writing the local (whole or through a projection), ('call', Call) for call results"""
        if self._defs is None:
            d = defaultdict(list)
            for bb, j, s in self.stmts():
                if s["k"] == "assign":
                    d[s["pl"]["l"]].append(("assign", bb, j, s["pl"], s["rv"]))
            for c in self.calls:
                if c.dest is not None:
                    d[c.dest["l"]].append(("call", c))
            self._defs = d
        return self._defs

    def is_closure_like(self):
        return self.kind in ("Closure", "SyntheticCoroutineBody")

    # ---- error exits -----------------------------------------------------------------
    def error_blocks(self, extra_adts=()):
        """blocks that are 'error exits' (DESIGN §5 vocabulary): `?` residual conversion, or
        an Err(..)/None aggregate flowing into the return place."""
        out = set()
        bad = {("core::result::Result", "Err"), ("core::option::Option", "None"),
               ("core::ops::control_flow::ControlFlow", "Break")}
        bad |= set(extra_adts)
        errlocals = set()
        for bb, j, s in self.stmts():
            if s["k"] != "assign":
                continue
            rv = s["rv"]
            if rv["k"] == "agg" and rv.get("ak") == "adt" and (rv["adt"], rv["variant"]) in bad:
                if s["pl"]["l"] == 0 and not s["pl"].get("p"):
                    out.add(bb)
                else:
                    errlocals.add(s["pl"]["l"])
        if errlocals:
            for bb, j, s in self.stmts():
                if s["k"] == "assign" and s["pl"]["l"] == 0 and not s["pl"].get("p"):
                    rv = s["rv"]
                    if rv["k"] == "use" and op_local(rv["op"]) in errlocals:
                        out.add(bb)
        for c in self.calls:
            if c.path == "core::ops::try_trait::FromResidual::from_residual":
                out.add(c.bb)
        return out

    def const_return_blocks(self, value):
        """blocks assigning the constant `value` (0/1 for bools) to the return place"""
        out = set()
        for bb, j, s in self.stmts():
            if s["k"] == "assign" and s["pl"]["l"] == 0 and not s["pl"].get("p"):
                rv = s["rv"]
                if rv["k"] == "use" and rv["op"].get("k") == "const" and rv["op"].get("v") == value:
                    out.add(bb)
        return out


# ---------------------------------------------------------------------------------------
# origin analysis

TRANSPARENT = {
    "core::ops::deref::Deref::deref", "core::ops::deref::DerefMut::deref_mut",
    "core::clone::Clone::clone", "core::convert::Into::into", "core::convert::From::from",
    "core::borrow::Borrow::borrow", "core::borrow::BorrowMut::borrow_mut",
    "core::convert::AsRef::as_ref", "core::convert::AsMut::as_mut",
    "core::option::Option::unwrap", "core::option::Option::expect",
    "core::option::Option::unwrap_or", "core::option::Option::unwrap_or_default",
    "core::option::Option::unwrap_or_else", "core::option::Option::as_ref",
    "core::option::Option::as_mut", "core::option::Option::copied", "core::option::Option::cloned",
    "core::option::Option::ok_or", "core::option::Option::ok_or_else",
    "core::option::Option::take", "core::option::Option::as_deref",
    "core::result::Result::unwrap", "core::result::Result::expect",
    "core::result::Result::map_err", "core::result::Result::ok", "core::result::Result::as_ref",
    "core::result::Result::unwrap_or", "core::result::Result::unwrap_or_default",
    "core::ops::try_trait::Try::branch", "core::future::into_future::IntoFuture::into_future",
    "core::future::future::Future::poll", "core::pin::Pin::new_unchecked",
    "alloc::borrow::ToOwned::to_owned", "alloc::borrow::Cow::into_owned",
    "core::convert::TryInto::try_into", "core::convert::TryFrom::try_from",
    "anyhow::Context::context", "anyhow::Context::with_context",
    "tracing::instrument::Instrument::instrument",
    "tracing::instrument::Instrument::in_current_span",
    "core::iter::traits::collect::IntoIterator::into_iter",
    "alloc::sync::Arc::new", "alloc::boxed::Box::new", "core::pin::Pin::new",
    "alloc::boxed::Box::pin",
    "core::mem::take", "core::mem::replace",
    "alloc::string::ToString::to_string",
}


class Origins:
    """Flow-insensitive backwards value-origin walk (DESIGN §4.1 'def-use origins').
    atoms(operand) is the set of sources reached through copy/move/ref/deref/cast/field
    chains and transparent calls; non-transparent calls are atoms themselves and their
    arguments are followed only while `depth` allows."""

    def __init__(self, body, depth=1, transparent=None):
        self.body = body
        self.depth = depth
        self.transparent = TRANSPARENT if transparent is None else transparent

    def atoms(self, op, depth=None):
        out = set()
        self._op(op, self.depth if depth is None else depth, out, set())
        return out

    def _op(self, op, depth, out, seen):
        k = op.get("k")
        if k == "const":
            if "v" in op:
                out.add(("const", op["v"]))
            else:
                out.add(("const", op.get("s")))
            if "def" in op:
                out.add(("constdef", op["def"]))
            return
        if k == "fn":
            out.add(("fnref", op["fn"]["path"]))
            if op["fn"].get("res"):
                out.add(("fnref", op["fn"]["res"]))
            return
        if k == "other":
            return
        self._place(op, depth, out, seen)

    def _place(self, pl, depth, out, seen):
        for adt, f in place_fields(pl):
            out.add(("field", f))
            if adt:
                out.add(("field", adt + "." + f))
        for p in pl.get("p", []):
            if p.startswith("@"):
                out.add(("variant", p[1:]))
        # field-sensitive step: `X.n` / `X.name` where X is built by exactly one tuple / struct
        # aggregate follows only the matching operand
        proj = pl.get("p", [])
        if proj and proj[0].startswith(".") and not (1 <= pl["l"] <= self.body.argc):
            ds = self.body.defs.get(pl["l"], [])
            whole = [d for d in ds if d[0] == "assign" and not d[3].get("p")]
            if len(ds) == 1 and len(whole) == 1 and whole[0][4]["k"] == "agg":
                rv = whole[0][4]
                fld = proj[0][1:]
                idx = None
                if rv.get("ak") == "tuple" and fld.isdigit():
                    idx = int(fld)
                elif rv.get("ak") == "adt" and fld in rv.get("fields", []):
                    idx = rv["fields"].index(fld)
                if idx is not None and idx < len(rv.get("ops", [])):
                    n = self.body.local_name(pl["l"])
                    if n:
                        out.add(("local", n))
                    self._op(rv["ops"][idx], depth, out, seen)
                    return
        self._local(pl["l"], pl, depth, out, seen)

    def _local(self, l, pl, depth, out, seen):
        body = self.body
        n = body.local_name(l)
        if n:
            out.add(("local", n))
        if 1 <= l <= body.argc:
            if body.is_closure_like() and l == 1:
                # closure environment: which upvar?
                for p in (pl or {}).get("p", []):
                    if p.startswith(".") and p[1:].isdigit():
                        nm = body.upvars.get(int(p[1:]))
                        out.add(("upvar", nm if nm else p[1:]))
                        break
                else:
                    out.add(("env", 1))
            else:
                out.add(("param", l))
        key = (l, depth, tuple((pl or {}).get("p", [])) if pl is not None else ())
        if key in seen:
            return
        seen.add(key)
        rp = (pl or {}).get("p", []) if pl is not None else []
        for d in body.defs.get(l, []):
            if d[0] == "assign":
                # field-sensitive: a write through projection W defines the value read through
                # projection R only if one is a prefix of the other
                wp = d[3].get("p", [])
                if wp and rp:
                    n = min(len(wp), len(rp))
                    if wp[:n] != rp[:n]:
                        continue
                self._rvalue(d[4], depth, out, seen)
            else:
                c = d[1]
                wp = c.dest.get("p", []) if c.dest else []
                if wp and rp:
                    n = min(len(wp), len(rp))
                    if wp[:n] != rp[:n]:
                        continue
                self._call(c, depth, out, seen)

    def _call(self, c, depth, out, seen):
        out.add(("call", c.path))
        if c.res:
            out.add(("call", c.res))
        if c.self_closure:
            out.add(("callclosure", c.self_closure))
        if c.path in self.transparent or (c.res and c.res in self.transparent):
            for a in c.args[:1]:
                self._op(a, depth, out, seen)
        elif depth > 0:
            for a in c.args:
                self._op(a, depth - 1, out, seen)

    def _rvalue(self, rv, depth, out, seen):
        k = rv["k"]
        if k in ("use", "cast", "repeat"):
            self._op(rv["op"], depth, out, seen)
        elif k in ("ref", "rawptr", "discr"):
            if k == "discr":
                out.add(("discr", rv.get("adt")))
            self._place(rv["pl"], depth, out, seen)
        elif k == "bin":
            out.add(("bin", rv["op"]))
            self._op(rv["a"], depth, out, seen)
            self._op(rv["b"], depth, out, seen)
        elif k == "un":
            out.add(("un", rv["op"]))
            self._op(rv["a"], depth, out, seen)
        elif k == "agg":
            if rv.get("ak") == "adt":
                out.add(("agg", rv["adt"] + "::" + rv["variant"]))
            elif rv.get("ak") in ("closure", "coroutine", "coroutine_closure"):
                out.add(("closure", rv["def"]))
            for o in rv.get("ops", []):
                self._op(o, depth, out, seen)

    # --- direct definition lookup (through trivial copies) ------------------------------
    def direct_def(self, op, through_transparent=True, _seen=None):
        """follow single-definition copy chains from an operand and return the defining
        ('assign', ...) / ('call', Call) / ('param', l) / ('const', op) entries"""
        _seen = _seen if _seen is not None else set()
        if op.get("k") in ("const", "fn"):
            return [("const", op)]
        l = op_local(op)
        if l is None or l in _seen:
            return []
        _seen.add(l)
        body = self.body
        res = []
        ds = body.defs.get(l, [])
        if not ds and 1 <= l <= body.argc:
            return [("param", l)]
        for d in ds:
            if d[0] == "assign":
                rv = d[4]
                if d[3].get("p"):
                    continue  # partial write
                if rv["k"] in ("use", "cast") and op_local(rv["op"]) is not None and not rv["op"].get("p"):
                    res += self.direct_def(rv["op"], through_transparent, _seen)
                elif rv["k"] == "ref" and not rv["pl"].get("p"):
                    res += self.direct_def(dict(rv["pl"], k="copy"), through_transparent, _seen)
                elif rv["k"] == "use" and rv["op"].get("k") in ("const", "fn"):
                    res.append(("const", rv["op"]))
                else:
                    res.append(d)
            else:
                c = d[1]
                if through_transparent and (c.path in self.transparent) and c.args:
                    sub = self.direct_def(c.args[0], through_transparent, _seen)
                    res += sub if sub else [d]
                else:
                    res.append(d)
        return res


def atom_match(atoms, spec):
    """spec forms: 'call:<glob>', 'field:<name>', 'local:<name>', 'param:<n>', 'const:<v>',
    'upvar:<name>', 'agg:<glob>', 'fnref:<glob>', 'closure:<glob>', 'variant:<name>'; a list/tuple means any-of;
    a callable gets the atom set."""
    if callable(spec):
        return spec(atoms)
    if isinstance(spec, (list, tuple, set)):
        return any(atom_match(atoms, s) for s in spec)
    kind, _, pat = spec.partition(":")
    for a in atoms:
        if a[0] != kind:
            continue
        v = a[1]
        if v is None:
            continue
        sv = str(v)
        if sv == pat or fnmatch.fnmatchcase(sv, pat):
            return True
    return False


# ---------------------------------------------------------------------------------------
# conditions on SwitchInt terminators

REL_SWAP = {"Lt": "Gt", "Gt": "Lt", "Le": "Ge", "Ge": "Le", "Eq": "Eq", "Ne": "Ne"}
REL_NEG = {"Lt": "Ge", "Ge": "Lt", "Gt": "Le", "Le": "Gt", "Eq": "Ne", "Ne": "Eq"}
CMP_CALLS = {
    "core::cmp::PartialOrd::lt": "Lt", "core::cmp::PartialOrd::le": "Le",
    "core::cmp::PartialOrd::gt": "Gt", "core::cmp::PartialOrd::ge": "Ge",
    "core::cmp::PartialEq::eq": "Eq", "core::cmp::PartialEq::ne": "Ne",
}


class Switch:
    """A SwitchInt terminator with its decoded test."""

    def __init__(self, body, bb):
        self.body = body
        self.bb = bb
        self.term = body.blocks[bb]["t"]
        self.is_bool = self.term.get("dt") == "bool"

    def edges_for_truth(self, truth):
        """labels of out-edges taken when the (bool) discriminant == truth"""
        if truth:
            labs = [("sw", "otherwise")]
            labs += [("sw", v) for v, _ in self.term["arms"] if v != 0]
            return labs
        return [("sw", 0)]

    def edge_for_value(self, v):
        vals = [a for a, _ in self.term["arms"]]
        if v in vals:
            return [("sw", v)]
        return [("sw", "otherwise")]

    def edges_except_value(self, v):
        vals = [a for a, _ in self.term["arms"]]
        if v in vals:
            return [("sw", a) for a in vals if a != v] + [("sw", "otherwise")]
        return [("sw", a) for a in vals]


def decode_bool_test(body, orig, op, flip=False, _depth=0):
    """Decode the boolean operand of a switch into a list of tests:
    ('cmp', rel, a_op, b_op, flip) | ('call', Call, flip) | ('value', op, flip)"""
    out = []
    if _depth > 6:
        return out
    defs = orig.direct_def(op, through_transparent=False)
    if not defs:
        return [("value", op, flip)]
    for d in defs:
        if d[0] == "assign":
            rv = d[4]
            if rv["k"] == "bin" and rv["op"] in REL_SWAP:
                out.append(("cmp", rv["op"], rv["a"], rv["b"], flip))
            elif rv["k"] == "un" and rv["op"] == "Not":
                out += decode_bool_test(body, orig, rv["a"], not flip, _depth + 1)
            elif rv["k"] == "use":
                out.append(("value", rv["op"], flip))
            else:
                out.append(("value", op, flip))
        elif d[0] == "call":
            c = d[1]
            if c.path in CMP_CALLS and len(c.args) == 2:
                out.append(("cmp", CMP_CALLS[c.path], c.args[0], c.args[1], flip))
            elif c.path in ("core::ops::bit::Not::not", "anyhow::__private::not") and c.args:
                out += decode_bool_test(body, orig, c.args[0], not flip, _depth + 1)
            else:
                out.append(("call", c, flip))
        elif d[0] == "param":
            out.append(("value", op, flip))
        elif d[0] == "const":
            out.append(("value", d[1], flip))
    return out


# ---------------------------------------------------------------------------------------


class Unit:
    """A fn plus all closures / coroutines nested in it."""

    def __init__(self, q, bodies):
        self.q = q
        self.bodies = bodies

    @property
    def root(self):
        for b in self.bodies:
            if b.defq == self.q:
                return b
        return self.bodies[0]

    @property
    def file(self):
        return self.root.file

    def calls_to(self, *specs):
        out = []
        for b in self.bodies:
            out += b.calls_to(*specs)
        return out

    @property
    def calls(self):
        out = []
        for b in self.bodies:
            out += [c for c in b.calls if c.bb in b.live]
        return out

    def main_body(self):
        """the body holding the user code: for async / #[instrument] / async_trait fns the
        root only builds a coroutine/closure; descend while the body is such a trivial shell"""
        b = self.root
        by_def = {x.defq: x for x in self.bodies}
        for _ in range(6):
            inner = None
            n_calls = len([c for c in b.calls if c.bb in b.live and c.path not in SHELL_CALLS])
            for bb, j, s in b.stmts():
                if s["k"] == "assign" and s["rv"]["k"] == "agg" and s["rv"].get("ak") in (
                        "coroutine", "closure", "coroutine_closure"):
                    inner = s["rv"]["def"]
            if inner and inner in by_def and n_calls == 0:
                b = by_def[inner]
                continue
            break
        return b

    def __repr__(self):
        return f"<unit {self.q} ({len(self.bodies)} bodies)>"


SHELL_CALLS = {
    "alloc::boxed::Box::pin", "alloc::boxed::Box::new", "core::pin::Pin::new",
    "tracing::instrument::Instrument::instrument", "tracing::span::Span::enter",
    "tracing::span::Span::new", "tracing::span::Span::none", "tracing::span::Span::in_scope",
}


class Facts:
    def __init__(self, config="default", state=None):
        self.config = config
        self.state = state
        self._crates = {}
        self._units = {}

    def crate(self, name):
        if name not in self._crates:
            if name not in factsmod.expected(self.config):
                raise AnchorMissing(f"crate {name} is not in the analysed set")
            raw, headers, blob = factsmod.load_crate(self.config, name)
            bodies = [Body(h, name, blob) for h in headers]
            units = defaultdict(list)
            for b in bodies:
                units[(b.unit, b.impl_self, b.impl_trait)].append(b)
            byq = defaultdict(list)
            for (q, s, t), bs in units.items():
                byq[q].append(Unit(q, bs))
            self._crates[name] = {"raw": raw, "bodies": bodies, "units": byq,
                                  "adts": {a["q"]: a for a in raw["adts"]},
                                  "ext_adts": {a["q"]: a for a in raw.get("ext_adts", [])},
                                  "skipped": set(raw.get("skipped", []))}
        return self._crates[name]

    def crate_of(self, q):
        s = q
        while s.startswith("<") or s.startswith("&"):
            s = s[1:]
        return s.split("::", 1)[0].split(" ")[0]

    def crate_candidates(self, q):
        """crates that may define item q: for `<Self as Trait>::m` the crate of Self or of Trait"""
        import re
        out = []
        for m in re.finditer(r"(?:^|[<&\s])([a-z_][a-z0-9_]*)::", q):
            c = m.group(1)
            if c in factsmod.expected(self.config) and c not in out:
                out.append(c)
        return out

    def units(self, q, crate=None):
        """all units with qualified name q (several when impls differ only by arguments)"""
        if crate is not None:
            return list(self.crate(crate)["units"].get(q, []))
        out = []
        for cn in self.crate_candidates(q):
            out += self.crate(cn)["units"].get(q, [])
        return out

    def unit(self, q, crate=None, impl_self=None):
        us = self.units(q, crate)
        if impl_self is not None:
            us = [u for u in us if u.root.impl_self and impl_self in u.root.impl_self]
        if not us:
            raise AnchorMissing(f"unit {q}" + (f" [{impl_self}]" if impl_self else ""))
        if len(us) > 1:
            raise AnchorMissing(f"unit {q} is ambiguous ({len(us)} impls); give impl_self")
        return us[0]

    def find_units(self, glob, crate):
        c = self.crate(crate)
        out = []
        for q, us in c["units"].items():
            if fnmatch.fnmatchcase(q, glob):
                out += us
        return out

    def all_units(self, crates):
        for cn in crates:
            c = self.crate(cn)
            for q, us in c["units"].items():
                for u in us:
                    yield u

    def adt(self, q, hint_crate=None):
        """ADT description (variants, fields). Enums of external crates are described in the
        facts of the workspace crates that match on them (`ext_adts`)."""
        cn = self.crate_of(q)
        if cn in factsmod.expected(self.config):
            a = self.crate(cn)["adts"].get(q)
            if a is not None:
                return a
        cands = ([hint_crate] if hint_crate else []) + list(self._crates)
        for c in cands:
            a = self.crate(c)["ext_adts"].get(q)
            if a is not None:
                return a
        raise AnchorMissing(f"type {q}")

    def impls(self, crate, trait=None, self_q=None):
        c = self.crate(crate)
        out = []
        for i in c["raw"]["impls"]:
            if trait is not None and i.get("trait") != trait:
                continue
            if self_q is not None and i.get("self_q") != self_q:
                continue
            out.append(i)
        return out

    def trait(self, q):
        c = self.crate(self.crate_of(q))
        for t in c["raw"]["traits"]:
            if t["q"] == q:
                return t
        raise AnchorMissing(f"trait {q}")

    def fn_item(self, q, crate=None):
        c = self.crate(crate or self.crate_of(q))
        out = [f for f in c["raw"]["fns"] if f["q"] == q]
        if not out:
            raise AnchorMissing(f"fn {q}")
        return out

    def stats(self):
        nb = sum(len(c["bodies"]) for c in self._crates.values())
        nl = sum(1 for c in self._crates.values() for b in c["bodies"] if b._raw is not None)
        nc = sum(len(b.calls) for c in self._crates.values() for b in c["bodies"] if b._calls is not None)
        return {"crates_loaded": sorted(self._crates), "bodies": nb, "bodies_analysed": nl, "call_sites_indexed": nc}
