#!/bin/bash
# RUSTC_WRAPPER: swap the registry copy of ethnum-1.5.2 (does not type-check on the
# nightly toolchain) for the vendored, patched copy. Everything else is passed through.
HERE="$(cd "$(dirname "${BASH_SOURCE[0]}")" && pwd)"
VENDOR="$HERE/../../vendor/ethnum-1.5.2/src/lib.rs"
args=()
for a in "$@"; do
  case "$a" in
    */ethnum-1.5.2/src/lib.rs) args+=("$VENDOR");;
    *) args+=("$a");;
  esac
done
exec "${args[@]}"
