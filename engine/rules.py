"""Rule templates (DESIGN.md §5). Every template registers one or more *obligations* in the
Ctx; an obligation is discharged or is a violation keyed `kind:instance:site` (no line
numbers in keys)."""
import fnmatch
import json
import os
import sys
import traceback
from contextlib import contextmanager

sys.path.insert(0, os.path.dirname(os.path.abspath(__file__)))
from core import (AnchorMissing, Origins, Switch, atom_match, decode_bool_test, op_local,  # noqa: E402
                  place_fields, place_str, REL_NEG, REL_SWAP, TRANSPARENT)

TABLE_WRITE_FNS = {
    "fuel_storage::StorageMut::insert": "insert", "fuel_storage::StorageMut::replace": "replace",
    "fuel_storage::StorageMut::remove": "remove", "fuel_storage::StorageMut::take": "take",
    "fuel_storage::StorageMutate::insert": "insert", "fuel_storage::StorageMutate::replace": "replace",
    "fuel_storage::StorageMutate::remove": "remove", "fuel_storage::StorageMutate::take": "take",
    "fuel_core_storage::StorageBatchMutate::init_storage": "batch_init",
    "fuel_core_storage::StorageBatchMutate::insert_batch": "batch_insert",
    "fuel_core_storage::StorageBatchMutate::remove_batch": "batch_remove",
    "fuel_core_storage::StorageWrite::write_bytes": "write", "fuel_core_storage::StorageWrite::replace_bytes": "replace",
    "fuel_core_storage::StorageWrite::take_bytes": "take",
    "fuel_storage::StorageWrite::write_bytes": "write", "fuel_storage::StorageWrite::replace_bytes": "replace",
    "fuel_storage::StorageWrite::take_bytes": "take",
}
TABLE_READ_FNS = {
    "fuel_storage::StorageRef::get": "get", "fuel_storage::StorageRef::contains_key": "contains_key",
    "fuel_storage::StorageInspect::get": "get", "fuel_storage::StorageInspect::contains_key": "contains_key",
    "fuel_storage::StorageMut::get": "get", "fuel_storage::StorageMut::contains_key": "contains_key",
}

# calls that move their arguments into the collection behind the `&mut self` receiver
INTO_RECEIVER = {
    "core::iter::traits::collect::Extend::extend", "<alloc::vec::Vec as core::iter::traits::collect::Extend>::extend",
    "alloc::vec::Vec::push", "alloc::vec::Vec::append", "alloc::vec::Vec::extend_from_slice",
    "alloc::collections::vec_deque::VecDeque::push_back", "alloc::collections::vec_deque::VecDeque::push_front",
    "std::collections::hash::map::HashMap::insert", "std::collections::hash::set::HashSet::insert",
    "alloc::collections::btree::map::BTreeMap::insert",
}
ITER_FLOW = (
    "core::iter::traits::collect::IntoIterator::into_iter", "core::iter::traits::iterator::Iterator::map",
    "core::iter::traits::iterator::Iterator::collect", "core::iter::traits::iterator::Iterator::filter",
    "core::iter::traits::iterator::Iterator::filter_map", "core::iter::traits::iterator::Iterator::chain",
    "core::iter::traits::iterator::Iterator::flatten", "core::iter::traits::iterator::Iterator::flat_map",
    "core::iter::traits::iterator::Iterator::cloned", "core::iter::traits::iterator::Iterator::copied",
    "core::iter::traits::iterator::Iterator::next", "core::iter::traits::iterator::Iterator::enumerate",
    "core::iter::traits::iterator::Iterator::take", "core::iter::traits::iterator::Iterator::skip",
    "[T]::iter", "alloc::vec::Vec::iter", "alloc::vec::Vec::drain", "alloc::slice::<impl [T]>::to_vec",
    "core::iter::sources::once::once", "itertools::Itertools::collect_vec", "core::iter::traits::iterator::Iterator::rev",
)

# result-type discriminants: value of the "bad" variant
BAD_VARIANT = {
    "core::ops::control_flow::ControlFlow": 1,  # Break
    "core::result::Result": 1,  # Err
    "core::option::Option": 0,  # None
}


def glob_any(s, pats):
    for p in pats:
        if s == p or fnmatch.fnmatchcase(s, p):
            return True
    return False


class Ctx:
    def __init__(self, pid, facts, tier="quick"):
        self.pid = pid
        self.F = facts
        self.tier = tier
        self.obligations = []
        self._clause = None
        self._hint = None
        self.notes = []

    # ---- bookkeeping -----------------------------------------------------------------
    def add(self, oid, kind, ok, detail="", sites=(), witness=None, site_key=""):
        full_id = oid if oid.startswith(self.pid) else f"{self.pid}.{oid}"
        ob = {
            "id": full_id, "kind": kind, "ok": bool(ok), "detail": detail,
            "sites": list(sites)[:12], "n_sites": len(list(sites)),
            "key": f"{kind}:{full_id}:{site_key}",
        }
        if witness is not None:
            ob["witness"] = witness
        self.obligations.append(ob)
        return ok

    @contextmanager
    def clause(self, cid):
        """A group of obligations; a missing anchor or an engine error inside it becomes a
        failed obligation (fail closed) instead of aborting the whole property."""
        prev = self._clause
        self._clause = cid
        try:
            yield
        except AnchorMissing as e:
            self.add(cid, "ANCHOR", False, f"anchor-missing: {e}", site_key=f"anchor-missing:{e}")
        except Exception as e:  # engine bug: fail closed, keep the trace for diagnosis
            tb = traceback.format_exc(limit=6)
            self.add(cid, "ENGINE", False, f"engine-error: {e!r}\n{tb}", site_key="engine-error")
        finally:
            self._clause = prev

    def unit(self, q, **kw):
        return self.F.unit(q, **kw)

    def main(self, q, **kw):
        return self.F.unit(q, **kw).main_body()

    # ---- helpers ---------------------------------------------------------------------
    def origins(self, body, depth=1):
        return Origins(body, depth)

    def body_with(self, unit, *callee, all=False):
        """the body of `unit` (fn + nested closures) that contains a call to callee; the anchor
        call decides which body holds the logic (instrument/async wrappers move it into
        {closure#0})"""
        if isinstance(unit, str):
            unit = self.F.unit(unit)
        bs = [b for b in unit.bodies if b.calls_to(*callee)]
        if not bs:
            raise AnchorMissing(f"no call to {callee} in unit {unit.q}")
        if all:
            return bs
        if len(bs) > 1:
            # prefer the innermost (longest def path) deterministic choice
            bs.sort(key=lambda b: (-len(b.calls_to(*callee)), len(b.defq), b.defq))
        return bs[0]

    def one_call(self, body, *callee, nth=None):
        cs = body.calls_to(*callee)
        if not cs:
            raise AnchorMissing(f"no call to {callee} in {body.defq}")
        if nth is not None:
            cs.sort(key=lambda c: c.bb)
            if nth >= len(cs):
                raise AnchorMissing(f"call #{nth} to {callee} in {body.defq}")
            return cs[nth]
        if len(cs) > 1:
            raise AnchorMissing(f"{len(cs)} calls to {callee} in {body.defq}, expected one")
        return cs[0]

    def ok_return_blocks(self, body, variants=(("core::result::Result", "Ok"), ("core::option::Option", "Some"))):
        """blocks that build the success value of the body: `_0 = Ok(..)` / `Some(..)`"""
        out = set()
        oklocals = set()
        for bb, j, s in body.stmts():
            if bb not in body.live or s["k"] != "assign":
                continue
            rv = s["rv"]
            if rv["k"] == "agg" and rv.get("ak") == "adt" and (rv["adt"], rv["variant"]) in variants:
                if s["pl"]["l"] == 0 and not s["pl"].get("p"):
                    out.add(bb)
                else:
                    oklocals.add(s["pl"]["l"])
        for bb, j, s in body.stmts():
            if bb in body.live and s["k"] == "assign" and s["pl"]["l"] == 0 and not s["pl"].get("p"):
                rv = s["rv"]
                if rv["k"] == "use" and op_local(rv["op"]) in oklocals:
                    out.add(bb)
        return out

    def flows(self, oid, call, to_return=False, to_call=None, to_arg=None, detail="", extra_transparent=(),
              through_calls=()):
        """PROV (forward): the result of `call` flows (through copies, refs, casts, binary /
        unary ops, aggregates, transparent calls and `through_calls`) into the return place
        (to_return) or into argument `to_arg` (any if None) of a call matching `to_call`."""
        body = call.body
        derived = self._derived(body, call, tuple(extra_transparent) + tuple(through_calls), wide=True)
        ok = False
        where = []
        if to_return:
            for bb, j, s in body.stmts():
                if s["k"] == "assign" and s["pl"]["l"] == 0 and bb in body.live:
                    if any(l in derived for l in rvalue_locals(s["rv"])):
                        ok = True
                        where.append(f"return value at line {s.get('line')}")
            if 0 in derived and not where:
                ok = True
                where.append("return place (call result)")
        if to_call is not None:
            specs = [to_call] if isinstance(to_call, str) else list(to_call)
            for c in body.calls_to(*specs):
                args = c.args if to_arg is None else c.args[to_arg:to_arg + 1]
                if any(op_local(a) in derived for a in args if op_local(a) is not None):
                    ok = True
                    where.append(f"{c.path} at line {c.line}")
        return self.add(oid, "PROV", ok, detail or f"result of {call.path} flows to " + ("return" if to_return else str(to_call)),
                        sites=[f"{body.defq} {call.where()} -> {w}" for w in where] or [f"{body.defq} {call.where()}"],
                        site_key=f"{body.defq}:{call.path}")

    def _flows_to_exit(self, body, call):
        """is the (fallible) result of `call` used: returned, tested by `?` / a switch, or passed on to another call?
        False means the result is dropped on the floor (assigned to a temp nobody reads, or explicitly discarded)."""
        derived = self._derived(body, call, (), wide=True)
        if 0 in derived:
            return True
        for bb, j, s in body.stmts():
            if bb in body.live and s["k"] == "assign" and s["pl"]["l"] == 0 and any(l in derived for l in rvalue_locals(s["rv"])):
                return True
        for i in body.live:
            t = body.blocks[i]["t"]
            if t["k"] == "switch" and op_local(t["d"]) in derived:
                return True
        for c in body.calls:
            if c is call or c.bb not in body.live:
                continue
            if any(op_local(a) in derived for a in c.args if op_local(a) is not None):
                if c.name in ("drop", "forget"):
                    continue
                return True
        return False

    def ok_edges(self, call, polarity="ok", extra_transparent=()):
        """Edges (bb,label) on which the result of `call` has been tested and found
        Ok/Some/Continue/true (polarity 'ok') or the opposite ('bad'); see DESIGN §5
        'ok-edge'. Returns (edges, untested) where untested lists blocks at which a path from
        the call leaves the body (return) without the result having been tested."""
        body = call.body
        derived = self._derived(body, call, extra_transparent)
        edges = []
        untested = []
        seen = set()
        stack = [call.target] if call.target is not None else []
        while stack:
            b = stack.pop()
            if b in seen:
                continue
            seen.add(b)
            t = body.blocks[b]["t"]
            if t["k"] == "switch":
                dl = op_local(t["d"])
                test = self._result_test(body, dl, derived)
                if test is not None:
                    sw = Switch(body, b)
                    kind, bad = test
                    if kind == "bool":
                        good = sw.edges_for_truth(True)
                        badl = sw.edges_for_truth(False)
                    else:
                        badl = sw.edge_for_value(bad)
                        good = sw.edges_except_value(bad)
                    for lab in (good if polarity == "ok" else badl):
                        edges.append((b, lab))
                    continue
            if t["k"] == "return":
                untested.append(b)
            for (tb, lab) in body.succs(b):
                stack.append(tb)
        return edges, untested

    def _derived(self, body, call, extra_transparent=(), wide=False):
        derived = set()
        if call.dest is not None:
            derived.add(call.dest["l"])
        transparent = set(TRANSPARENT) | set(extra_transparent)
        changed = True
        while changed:
            changed = False
            for bb, j, s in body.stmts():
                if s["k"] != "assign":
                    continue
                dl = s["pl"]["l"]
                if dl in derived:
                    continue
                rv = s["rv"]
                srcs = []
                if rv["k"] in ("use", "cast"):
                    srcs.append(op_local(rv["op"]))
                elif rv["k"] in ("ref", "rawptr"):
                    srcs.append(rv["pl"]["l"])
                elif rv["k"] == "agg" and rv.get("ak") in ("tuple",):
                    srcs += [op_local(o) for o in rv.get("ops", [])]
                elif wide:
                    srcs += rvalue_locals(rv)
                if any(x in derived for x in srcs if x is not None):
                    derived.add(dl)
                    changed = True
            for c in body.calls:
                if wide and (c.path in INTO_RECEIVER or (c.res and c.res in INTO_RECEIVER)) and len(c.args) >= 2:
                    # data flows into the collection behind the &mut receiver
                    if any(op_local(a) in derived for a in c.args[1:] if op_local(a) is not None):
                        for r in self._referents(body, c.args[0]):
                            if r not in derived:
                                derived.add(r)
                                changed = True
                if c.dest is None or c.dest["l"] in derived:
                    continue
                if c.path in transparent or (c.res and c.res in transparent):
                    if any(op_local(a) in derived for a in c.args if op_local(a) is not None):
                        derived.add(c.dest["l"])
                        changed = True
        return derived

    def _referents(self, body, op, _depth=0):
        """locals a reference operand points to (through `&mut x` / reborrow chains)"""
        l = op_local(op)
        out = set()
        if l is None or _depth > 4:
            return out
        for d in body.defs.get(l, []):
            if d[0] == "assign" and d[4]["k"] in ("ref", "rawptr"):
                pl = d[4]["pl"]
                if pl.get("p") and pl["p"][0] == "*":
                    out |= self._referents(body, {"k": "copy", "l": pl["l"]}, _depth + 1)
                else:
                    out.add(pl["l"])
            elif d[0] == "assign" and d[4]["k"] == "use" and op_local(d[4]["op"]) is not None:
                out |= self._referents(body, d[4]["op"], _depth + 1)
        return out

    def _result_test(self, body, dl, derived):
        """is local `dl` (a switch discriminant) a test of a derived result? -> (kind, bad)"""
        if dl is None:
            return None
        if dl in derived and body.local_ty(dl) == "bool":
            return ("bool", 0)
        for d in body.defs.get(dl, []):
            if d[0] == "assign" and d[4]["k"] == "discr":
                rv = d[4]
                if rv["pl"]["l"] in derived and rv.get("adt") in BAD_VARIANT:
                    return ("adt", BAD_VARIANT[rv["adt"]])
            if d[0] == "call":
                c = d[1]
                # is_ok()/is_some()/is_err()/is_none() on a derived value
                if c.args and op_local(c.args[0]) in derived:
                    if c.path in ("core::result::Result::is_ok", "core::option::Option::is_some"):
                        return ("bool", 0)
        return None

    # ---- CFG templates -----------------------------------------------------------------
    def must_pass(self, oid, body, sites, exits="success", detail="", extra_cut=(), start=None):
        """MPT: every path entry -> (success) return passes one of `sites` (Call objects or
        block ids)."""
        blocks = {s.bb if hasattr(s, "bb") else s for s in sites}
        if not blocks:
            return self.add(oid, "MPT", False, f"no site to pass through in {body.defq}: {detail}",
                            site_key=f"{body.defq}:no-site")
        cut = set(blocks) | set(extra_cut)
        if exits == "success":
            cut |= body.error_blocks()
        rets = body.return_blocks()
        starts = [0] if start is None else list(start)
        p = body.path(starts, rets, cut_blocks=cut)
        ok = p is None and len(rets) > 0
        return self.add(oid, "MPT", ok,
                        detail or f"every {exits} path of {body.defq} passes the site",
                        sites=[f"{body.defq} bb{b} line {body.blocks[b]['t'].get('line')}" for b in sorted(blocks)],
                        witness=None if ok else {"path": body.describe_path(p or []), "unit": body.defq},
                        site_key=f"{body.defq}")

    def dominated(self, oid, body, targets, by_blocks=(), by_edges=(), detail="", start=None):
        """DOM/GUARD: every `targets` block is unreachable from entry once the given blocks /
        edges are cut (i.e. each path to a target passes one of them)."""
        tblocks = {s.bb if hasattr(s, "bb") else s for s in targets}
        if not tblocks:
            return self.add(oid, "DOM", False, f"no target site in {body.defq}: {detail}",
                            site_key=f"{body.defq}:no-target")
        if not by_blocks and not by_edges:
            return self.add(oid, "DOM", False, f"no dominating site/edge found in {body.defq}: {detail}",
                            site_key=f"{body.defq}:no-dominator")
        live_t = [b for b in tblocks if b in body.live]
        if not live_t:
            return self.add(oid, "DOM", False, f"target unreachable in {body.defq}", site_key=f"{body.defq}:dead")
        cutb = {s.bb if hasattr(s, "bb") else s for s in by_blocks}
        p = body.path([0] if start is None else list(start), live_t, cut_blocks=cutb - set(live_t), cut_edges=set(by_edges))
        ok = p is None
        return self.add(oid, "DOM", ok, detail,
                        sites=[f"{body.defq} bb{b} line {body.blocks[b]['t'].get('line')}" for b in sorted(live_t)],
                        witness=None if ok else {"path": body.describe_path(p), "unit": body.defq},
                        site_key=f"{body.defq}")

    def after_ok(self, oid, a_call, targets, detail="", polarity="ok", extra_transparent=()):
        """every target is reachable only through an ok-edge of a_call ('A succeeded before B')"""
        body = a_call.body
        edges, _ = self.ok_edges(a_call, polarity, extra_transparent)
        if not edges:
            return self.add(oid, "DOM", False,
                            f"result of {a_call.path} is never tested in {body.defq}: {detail}",
                            site_key=f"{body.defq}:untested:{a_call.path}")
        # cut every way past the call except its ok edges: the call block's own successor
        # stays, but all *non-ok* edges of the test switches and untested fallthroughs are what
        # we must exclude -> equivalently: targets unreachable when the ok edges are cut AND
        # targets not reachable without passing the call at all.
        return self.dominated(oid, body, targets, by_edges=edges, detail=detail or f"after ok-edge of {a_call.path}")

    def paired(self, oid, a_call_or_block, b_sites, detail="", on="ok", exits="success", from_edges=None):
        """PAIR: every path from A (its ok-edge when on='ok') to a success return passes a B site"""
        body = a_call_or_block.body if hasattr(a_call_or_block, "body") else None
        if body is None:
            raise ValueError("paired needs a Call")
        a = a_call_or_block
        bblocks = {s.bb if hasattr(s, "bb") else s for s in b_sites if (not hasattr(s, "body") or s.body is body)}
        if not bblocks:
            return self.add(oid, "PAIR", False, f"no partner site for {a.path} in {body.defq}: {detail}",
                            site_key=f"{body.defq}:{a.path}:no-partner")
        if from_edges is not None:
            starts = [self._edge_target(body, e) for e in from_edges]
        elif on == "ok":
            edges, _ = self.ok_edges(a)
            starts = [self._edge_target(body, e) for e in edges] if edges else [a.target]
        else:
            starts = [a.target]
        starts = [s for s in starts if s is not None]
        cut = set(bblocks)
        if exits == "success":
            cut |= body.error_blocks()
        rets = body.return_blocks()
        p = body.path(starts, rets, cut_blocks=cut)
        ok = p is None
        return self.add(oid, "PAIR", ok, detail or f"{a.path} is followed by its partner on every success path",
                        sites=[f"{body.defq} bb{a.bb} line {a.line}"],
                        witness=None if ok else {"path": body.describe_path(p), "unit": body.defq},
                        site_key=f"{body.defq}:{a.path}")

    def _edge_target(self, body, edge):
        b, lab = edge[0], edge[1]
        for (tb, l) in body.succs(b):
            if l == lab:
                return tb
        return None

    # ---- guards ------------------------------------------------------------------------
    def find_tests(self, body, pred, depth=1):
        """all (Switch, truth_edges_fn) for bool switches whose decoded test satisfies
        pred(test, origins) -> polarity (True: cond true <=> discr true, False: inverted,
        None: no match)."""
        orig = Origins(body, depth)
        out = []
        for i in sorted(body.live):
            t = body.blocks[i]["t"]
            if t["k"] != "switch" or t.get("dt") != "bool":
                continue
            for test in decode_bool_test(body, orig, t["d"]):
                pol = pred(test, orig)
                if pol is not None:
                    out.append((Switch(body, i), pol))
                    break
        return out

    def cmp_tests(self, body, rel, lhs, rhs, depth=1):
        """switches testing `lhs REL rhs` in any equivalent spelling; returns list of
        (Switch, polarity) where polarity True means discr==true <=> (lhs REL rhs)."""
        def pred(test, orig):
            if test[0] != "cmp":
                return None
            _, r, a, b, flip = test
            aa, ab = orig.atoms(a), orig.atoms(b)
            for (rr, x, y, inv) in ((rel, lhs, rhs, False), (REL_SWAP[rel], rhs, lhs, False),
                                    (REL_NEG[rel], lhs, rhs, True), (REL_SWAP[REL_NEG[rel]], rhs, lhs, True)):
                if r == rr and atom_match(aa, x) and atom_match(ab, y):
                    return (not inv) != flip
            return None
        return self.find_tests(body, pred, depth)

    def call_tests(self, body, callee, arg_spec=None, depth=1):
        """switches testing the bool result of a call to `callee` (list of globs)"""
        callee = [callee] if isinstance(callee, str) else list(callee)

        def pred(test, orig):
            if test[0] != "call":
                return None
            c, flip = test[1], test[2]
            if not c.is_path(*callee):
                return None
            if arg_spec is not None:
                at = set()
                for a in c.args:
                    at |= orig.atoms(a)
                if not atom_match(at, arg_spec):
                    return None
            return not flip
        return self.find_tests(body, pred, depth)

    def value_tests(self, body, spec, depth=1):
        """switches testing a bool value whose origins match spec (field/local/param/call)"""
        def pred(test, orig):
            if test[0] == "value":
                op, flip = test[1], test[2]
                if atom_match(orig.atoms(op), spec):
                    return not flip
            if test[0] == "call":
                c, flip = test[1], test[2]
                at = set()
                orig._call(c, depth, at, set())
                if atom_match(at, spec):
                    return not flip
            return None
        return self.find_tests(body, pred, depth)

    def rel_tests(self, body, rel):
        """all switches testing a comparison with relation `rel` (any operands), normalised"""
        def pred(test, orig):
            if test[0] != "cmp":
                return None
            r, flip = test[1], test[4]
            if r == rel:
                return not flip
            if r == REL_NEG[rel]:
                return flip
            return None
        return self.find_tests(body, pred, 0)

    def guarded(self, oid, body, targets, tests, truth, detail=""):
        """GUARD: targets reachable only via the edge on which the tested condition == truth.
        `tests` is a list of (Switch, polarity) from cmp_tests/call_tests/value_tests."""
        if not tests:
            return self.add(oid, "GUARD", False, f"guard condition not found in {body.defq}: {detail}",
                            site_key=f"{body.defq}:no-guard")
        edges = []
        for sw, pol in tests:
            want = truth if pol else (not truth)
            for lab in sw.edges_for_truth(want):
                edges.append((sw.bb, lab))
        tblocks = {s.bb if hasattr(s, "bb") else s for s in targets}
        if not tblocks:
            return self.add(oid, "GUARD", False, f"guarded site not found in {body.defq}: {detail}",
                            site_key=f"{body.defq}:no-target")
        live_t = [b for b in tblocks if b in body.live]
        p = body.path([0], live_t, cut_edges=set(edges)) if live_t else []
        ok = p is None
        return self.add(oid, "GUARD", ok, detail,
                        sites=[f"{body.defq} guard bb{sw.bb} line {sw.term.get('line')}" for sw, _ in tests],
                        witness=None if ok else {"path": body.describe_path(p or []), "unit": body.defq},
                        site_key=f"{body.defq}")

    def test_leads_to_error(self, oid, body, tests, truth, detail="", exits=None):
        """the edge on which the condition == truth reaches a return only through an error
        exit (i.e. the check rejects)."""
        if not tests:
            return self.add(oid, "REJECT", False, f"check not found in {body.defq}: {detail}",
                            site_key=f"{body.defq}:no-check")
        errs = body.error_blocks() if exits is None else set(exits)
        rets = body.return_blocks()
        bad = None
        for sw, pol in tests:
            want = truth if pol else (not truth)
            for lab in sw.edges_for_truth(want):
                tb = self._edge_target(body, (sw.bb, lab))
                if tb is None:
                    continue
                # all other edges of this switch are cut so the path really starts on this edge
                p = body.path([tb], rets, cut_blocks=errs)
                if p is not None:
                    bad = p
        ok = bad is None
        return self.add(oid, "REJECT", ok, detail,
                        sites=[f"{body.defq} check bb{sw.bb} line {sw.term.get('line')}" for sw, _ in tests],
                        witness=None if ok else {"path": body.describe_path(bad), "unit": body.defq},
                        site_key=f"{body.defq}")

    # ---- effect reachability -------------------------------------------------------------
    def reach_calls(self, roots, crates, max_depth=12, stop=(), no_cha=()):
        """EFFECT: bounded call-graph reachability. roots: unit qnames (all impl variants).
        Direct callees are followed by qualified name; a trait-method call `Trait::m` is followed to
        its resolved impl when known, otherwise to every `<* as Trait>::m` unit of `crates`
        (class-hierarchy approximation). Returns (visited unit qnames, list of (Call, chain))."""
        index = {}
        by_trait_method = {}
        for cn in crates:
            for q, us in self.F.crate(cn)["units"].items():
                index.setdefault(q, []).extend(us)
                if q.startswith("<") and " as " in q and ">::" in q:
                    tm = q.split(" as ", 1)[1].replace(">::", "::", 1)
                    by_trait_method.setdefault(tm, []).extend(us)
        seen = {}
        calls = []
        frontier = []
        for r in roots:
            if not isinstance(r, str):      # a Unit object: exactly that impl
                frontier.append((r, (r.q,)))
                continue
            for u in index.get(r, []):
                frontier.append((u, (r,)))
        if not frontier:
            raise AnchorMissing(f"effect roots {roots}")
        depth = 0
        while frontier and depth <= max_depth:
            nxt = []
            for u, chain in frontier:
                key = (u.q, u.root.impl_self)
                if key in seen:
                    continue
                seen[key] = chain
                if glob_any(u.q, stop):
                    continue
                for b in u.bodies:
                    for c in b.calls:
                        if c.bb not in b.live:
                            continue
                        calls.append((c, chain))
                        targets = []
                        if c.res and c.res in index:
                            targets = index[c.res]
                        elif c.path in index:
                            targets = index[c.path]
                        elif c.trait and c.path in by_trait_method and not glob_any(c.path, no_cha):
                            targets = by_trait_method[c.path]
                        for t in targets:
                            nxt.append((t, chain + (t.q,)))
                    for ref in fn_refs(b):
                        for cand in (ref.get("res"), ref["path"]):
                            if cand and cand in index:
                                for t in index[cand]:
                                    nxt.append((t, chain + (t.q,)))
                                break
            frontier = nxt
            depth += 1
        return seen, calls

    # ---- totality ------------------------------------------------------------------------
    PANIC_CALLS = ("core::option::Option::unwrap", "core::option::Option::expect", "core::result::Result::unwrap",
                   "core::result::Result::expect", "core::result::Result::unwrap_err", "core::result::Result::expect_err",
                   "core::ops::index::Index::index", "core::ops::index::IndexMut::index_mut")

    def _const_of(self, body, op, _d=0):
        """constant value of an operand through casts / copies, or None"""
        if op.get("k") == "const":
            return op.get("v")
        if _d > 6:
            return None
        l = op_local(op)
        if l is None or op.get("p"):
            return None
        ds = body.defs.get(l, [])
        if len(ds) != 1 or ds[0][0] != "assign" or ds[0][3].get("p"):
            return None
        rv = ds[0][4]
        if rv["k"] in ("use", "cast"):
            return self._const_of(body, rv["op"], _d + 1)
        return None

    def _root_of(self, body, op, _d=0):
        """the variable an operand is a (cast / copy) image of: ('local', l) — follows single
        definitions through `use` / integer widening casts"""
        l = op_local(op)
        if l is None or op.get("p") or _d > 8:
            return None
        if 1 <= l <= body.argc or body.local_name(l):
            return l
        ds = body.defs.get(l, [])
        if len(ds) == 1 and ds[0][0] == "assign" and not ds[0][3].get("p") and ds[0][4]["k"] in ("use", "cast"):
            r = self._root_of(body, ds[0][4]["op"], _d + 1)
            return r if r is not None else l
        return l

    def panic_edges(self, body):
        """all panic edges of a body (DESIGN §5 NOPANIC): Assert terminators and calls that can
        panic; debug_assert! expansions are exempt (debug-only)"""
        out = []
        for i in sorted(body.live):
            t = body.blocks[i]["t"]
            if t["k"] == "assert":
                out.append(("assert", i, t))
            elif t["k"] in ("call", "tailcall"):
                f = t["f"]
                path = f["fn"]["path"] if f.get("k") == "fn" else ""
                exp = t.get("exp") or ""
                if "debug_assert" in exp:
                    continue
                if path in self.PANIC_CALLS or path.startswith("core::panicking::") or path.startswith("std::rt::begin_panic") or \
                        path in ("core::slice::index::slice_index_fail", "core::str::slice_error_fail"):
                    out.append(("call", i, t))
        return out

    def bounds_discharged(self, body, bb, term):
        """is the bounds Assert at bb (`index < len` with constant len) implied by dominating
        comparisons of the index's root variable against constants?"""
        msg = term["msg"]
        n = self._const_of(body, msg["len"])
        if n is None:
            return False, "length is not a constant"
        root = self._root_of(body, msg["index"])
        if root is None:
            return False, "index has no root variable"
        orig = Origins(body, 0)
        implying = []
        for i in sorted(body.live):
            t = body.blocks[i]["t"]
            if t["k"] != "switch" or t.get("dt") != "bool":
                continue
            for test in decode_bool_test(body, orig, t["d"]):
                if test[0] != "cmp":
                    continue
                _, rel, a, b, flip = test
                ra, rb = self._root_of(body, a), self._root_of(body, b)
                ca, cb = self._const_of(body, a), self._const_of(body, b)
                sw = Switch(body, i)
                # normalise to `root REL c`
                if ra == root and cb is not None:
                    r, c = rel, cb
                elif rb == root and ca is not None:
                    r, c = REL_SWAP[rel], ca
                else:
                    continue
                # which truth value of (root r c) implies root < n ?
                for truth in (True, False):
                    rr = r if truth else REL_NEG[r]
                    implies = (rr == "Lt" and c <= n) or (rr == "Le" and c <= n - 1) or (rr == "Eq" and c <= n - 1)
                    if implies:
                        want = truth != flip
                        for lab in sw.edges_for_truth(want):
                            implying.append((i, lab))
        if not implying:
            return False, "no dominating comparison of the index against a constant"
        # the index root must not be reassigned between the test and the use: require single definition
        if len(body.defs.get(root, [])) > 1:
            return False, "index variable is reassigned"
        p = body.path([0], [bb], cut_edges=set(implying))
        return p is None, ("dominated by the comparison edges" if p is None else f"reachable without the bound: {body.describe_path(p)}")

    def no_panic(self, oid, body, allowed=(), detail=""):
        """NOPANIC: every panic edge of body is discharged (constant-length bounds checks by
        interval reasoning) or listed in `allowed` (substring of callee path / assert kind, with
        the reason kept in the rule file)."""
        edges = self.panic_edges(body)
        ok_all = True
        n = 0
        for kind, bb, t in edges:
            n += 1
            line = t.get("line")
            if kind == "assert":
                k = t["msg"].get("k")
                if k == "bounds":
                    ok, why = self.bounds_discharged(body, bb, t)
                    self.add(f"{oid}-bounds-{n}", "NOPANIC", ok, f"index bounds check in {body.defq} line {line}: {why}",
                             sites=[f"{body.file}:{line}"], site_key=f"{body.defq}:bounds:{n}")
                    ok_all &= ok
                    continue
                name = f"assert:{k}"
            else:
                name = t["f"]["fn"]["path"]
            okk = any(a in name for a in allowed)
            self.add(f"{oid}-{n}", "NOPANIC", okk, f"panic edge `{name}` in {body.defq} line {line}" + (" (reviewed exception)" if okk else ""),
                     sites=[f"{body.file}:{line}"], site_key=f"{body.defq}:{name}:{n}")
            ok_all &= okk
        if not edges:
            self.add(f"{oid}-none", "NOPANIC", True, f"{body.defq} has no panic edge", sites=[f"{body.file}:{body.line}"], site_key=body.defq)
        return ok_all

    # ---- who-may-call / who-may-write --------------------------------------------------
    def call_sites(self, callee, crates, self_ty=None, targ=None, include_refs=True):
        """all live call sites (and fn-item references) of callee in the given crates"""
        callee = [callee] if isinstance(callee, str) else list(callee)
        out = []
        for cn in crates:
            c = self.F.crate(cn)
            for b in c["bodies"]:
                if not b.may_call(callee):
                    continue
                for cl in b.calls:
                    if cl.bb not in b.live:
                        continue
                    if not cl.is_path(*callee):
                        continue
                    if self_ty is not None and not (cl.self_ty and self_ty in cl.self_ty):
                        continue
                    if targ is not None and not any(targ in t for t in cl.targs):
                        continue
                    out.append(cl)
                if include_refs:
                    for ref in fn_refs(b):
                        if glob_any(ref["path"], callee) or (ref.get("res") and glob_any(ref["res"], callee)):
                            out.append(FnRef(b, ref))
        return out

    def only_callers(self, oid, callee, allowed, crates, must=(), self_ty=None, targ=None, detail="",
                     min_sites=1):
        """WMC: every call site of `callee` lies in a unit matching `allowed` (globs);
        each unit glob in `must` has >= 1 site; total sites >= min_sites (anti-vacuity)."""
        sites = self.call_sites(callee, crates, self_ty=self_ty, targ=targ)
        ok_all = True
        if len(sites) < min_sites:
            self.add(oid, "WMC", False, f"expected >= {min_sites} call sites of {callee}, found {len(sites)} ({detail})",
                     site_key="floor")
            ok_all = False
        bad = [s for s in sites if not glob_any(s.body.unit, allowed)]
        for s in bad:
            self.add(oid, "WMC", False, f"{callee} called from {s.body.defq} ({s.where()}), not in the allowed set: {detail}",
                     sites=[s.where()], site_key=f"{s.body.unit}")
            ok_all = False
        for m in must:
            if not any(glob_any(s.body.unit, [m]) for s in sites):
                self.add(oid, "WMC", False, f"required caller {m} of {callee} has no site: {detail}", site_key=f"must:{m}")
                ok_all = False
        if ok_all:
            self.add(oid, "WMC", True, detail or f"callers of {callee} within allowed set",
                     sites=[f"{s.body.defq} {s.where()}" for s in sites], site_key="all")
        return ok_all

    def table_ops(self, table, crates, ops=None, reads=False):
        """call sites of storage write (or read) operations on a table type"""
        fns = TABLE_READ_FNS if reads else TABLE_WRITE_FNS
        out = []
        for cn in crates:
            c = self.F.crate(cn)
            for b in c["bodies"]:
                if not (b.callees & fns.keys()):
                    continue
                for cl in b.calls:
                    if cl.bb not in b.live or cl.path not in fns:
                        continue
                    if ops is not None and fns[cl.path] not in ops:
                        continue
                    if not cl.targs or not _type_is(cl.targs[-1], table):
                        continue
                    out.append(cl)
        return out

    def only_table_writers(self, oid, table, allowed, crates, ops=None, min_sites=1, detail=""):
        """TABLEW. allowed: dict unit-glob -> set of ops (or None for any)"""
        sites = self.table_ops(table, crates, ops)
        ok_all = True
        if len(sites) < min_sites:
            self.add(oid, "TABLEW", False, f"expected >= {min_sites} write sites on {table}, found {len(sites)}", site_key="floor")
            ok_all = False
        for s in sites:
            op = TABLE_WRITE_FNS[s.path]
            okk = False
            for g, allowed_ops in allowed.items():
                if glob_any(s.body.unit, [g]) and (allowed_ops is None or op in allowed_ops):
                    okk = True
            if not okk:
                self.add(oid, "TABLEW", False, f"{op} on table {table} in {s.body.defq} ({s.where()}) is outside the allowed writer set: {detail}",
                         sites=[s.where()], site_key=f"{s.body.unit}:{op}")
                ok_all = False
        for g in allowed:
            if not any(glob_any(s.body.unit, [g]) for s in sites):
                self.add(oid, "TABLEW", False, f"expected writer {g} of {table} has no site", site_key=f"must:{g}")
                ok_all = False
        if ok_all:
            self.add(oid, "TABLEW", True, detail or f"writers of {table} within allowed set",
                     sites=[f"{s.body.defq} {TABLE_WRITE_FNS[s.path]} {s.where()}" for s in sites], site_key="all")
        return ok_all

    def field_touches(self, adt, field, crates, kinds=("write", "refmut")):
        """sites touching field `field` of ADT `adt`: 'write' (assignment through the field),
        'refmut' (&mut of it), 'ref' (& of it), 'read' (copied/moved out)"""
        out = []
        for cn in crates:
            c = self.F.crate(cn)
            for b in c["bodies"]:
                if adt not in b.adts_touched:
                    continue
                for bb, j, s in b.stmts():
                    if bb not in b.live or s["k"] != "assign":
                        continue
                    if "write" in kinds and (adt, field) in place_fields(s["pl"]):
                        out.append(("write", b, bb, s))
                    rv = s["rv"]
                    if rv["k"] == "ref" and (adt, field) in place_fields(rv["pl"]):
                        k = "refmut" if rv.get("mut") else "ref"
                        if k in kinds:
                            out.append((k, b, bb, s))
                    if "read" in kinds and rv["k"] in ("use", "cast") and op_local(rv["op"]) is not None:
                        if (adt, field) in place_fields(rv["op"]):
                            out.append(("read", b, bb, s))
                if "read" in kinds or "write" in kinds:
                    for cl in b.calls:
                        if cl.bb not in b.live:
                            continue
                        for a in cl.args:
                            if op_local(a) is not None and (adt, field) in place_fields(a) and "read" in kinds:
                                out.append(("read", b, cl.bb, {"line": cl.line}))
                        if cl.dest is not None and (adt, field) in place_fields(cl.dest) and "write" in kinds:
                            out.append(("write", b, cl.bb, {"line": cl.line, "call": cl}))
        return out

    def only_field_writers(self, oid, adt, field, allowed, crates, kinds=("write", "refmut"), min_sites=1, detail=""):
        """WMW"""
        sites = self.field_touches(adt, field, crates, kinds)
        ok_all = True
        if len(sites) < min_sites:
            self.add(oid, "WMW", False, f"expected >= {min_sites} {kinds} sites on {adt}.{field}, found {len(sites)}", site_key="floor")
            ok_all = False
        seen_bad = set()
        for (k, b, bb, s) in sites:
            if not glob_any(b.unit, allowed):
                if b.unit in seen_bad:
                    continue
                seen_bad.add(b.unit)
                self.add(oid, "WMW", False, f"{k} of {adt}.{field} in {b.defq} ({b.file}:{s.get('line')}) outside the allowed writer set: {detail}",
                         sites=[f"{b.file}:{s.get('line')}"], site_key=f"{b.unit}")
                ok_all = False
        if ok_all:
            self.add(oid, "WMW", True, detail or f"writers of {adt}.{field} within allowed set",
                     sites=sorted({f"{b.unit} ({k})" for (k, b, bb, s) in sites}), site_key="all")
        return ok_all

    # ---- dispatch ------------------------------------------------------------------------
    def enum_switches(self, body, enum_q):
        """switch blocks on the discriminant of a place of enum type enum_q -> (bb, Switch, discr stmt)"""
        self._hint = body.crate
        out = []
        for i in sorted(body.live):
            t = body.blocks[i]["t"]
            if t["k"] != "switch":
                continue
            dl = op_local(t["d"])
            if dl is None:
                continue
            for d in body.defs.get(dl, []):
                if d[0] == "assign" and d[4]["k"] == "discr" and d[4].get("adt") == enum_q:
                    out.append((i, Switch(body, i), d[4]))
        return out

    def discr_switches(self, body, adt_q, spec, depth=1):
        """switches on the discriminant of a place of type adt_q whose origins match spec ->
        list of Switch"""
        orig = Origins(body, depth)
        out = []
        for i in sorted(body.live):
            t = body.blocks[i]["t"]
            if t["k"] != "switch":
                continue
            dl = op_local(t["d"])
            if dl is None:
                continue
            for d in body.defs.get(dl, []):
                if d[0] == "assign" and d[4]["k"] == "discr" and d[4].get("adt") == adt_q:
                    at = set()
                    orig._place(d[4]["pl"], depth, at, set())
                    if atom_match(at, spec):
                        out.append(Switch(body, i))
        return out

    def deref_writes(self, body, spec, depth=1):
        """assignments `(*p) = v` where p originates from spec (e.g. a mutex guard obtained
        from a given field) -> list of (bb, stmt)"""
        orig = Origins(body, depth)
        out = []
        for bb, j, s in body.stmts():
            if bb not in body.live or s["k"] != "assign":
                continue
            pr = s["pl"].get("p", [])
            if not pr or pr[0] != "*":
                continue
            at = set()
            orig._local(s["pl"]["l"], s["pl"], depth, at, set())
            if atom_match(at, spec):
                out.append((bb, s))
        return out

    def variant_index(self, enum_q, variant):
        a = self.F.adt(enum_q, self._hint)
        for i, v in enumerate(a["variants"]):
            if v["n"] == variant:
                return i
        raise AnchorMissing(f"variant {enum_q}::{variant}")

    def variants(self, enum_q):
        return [v["n"] for v in self.F.adt(enum_q, self._hint)["variants"]]

    def dispatch_total(self, oid, body, enum_q, detail="", min_switches=1, allow_otherwise_to=None):
        """DISPATCH (no wildcard): every switch on enum_q's discriminant in body lists every
        variant explicitly, or its otherwise edge goes to an `unreachable` block.
        allow_otherwise_to: predicate(body, target_bb) accepting a benign otherwise target
        (e.g. an error exit)."""
        self._hint = body.crate
        sws = self.enum_switches(body, enum_q)
        if len(sws) < min_switches:
            return self.add(oid, "DISPATCH", False, f"expected >= {min_switches} match on {enum_q} in {body.defq}, found {len(sws)}: {detail}",
                            site_key=f"{body.defq}:floor")
        nvar = len(self.variants(enum_q))
        ok_all = True
        for (bb, sw, _) in sws:
            other = sw.term["otherwise"]
            vals = {v for v, _ in sw.term["arms"]}
            tk = body.blocks[other]["t"]["k"]
            fine = tk == "unreachable" or len(vals) >= nvar
            if not fine and allow_otherwise_to is not None and allow_otherwise_to(body, other):
                fine = True
            if not fine:
                missing = [v["n"] for i, v in enumerate(self.F.adt(enum_q, body.crate)["variants"]) if i not in vals]
                self.add(oid, "DISPATCH", False,
                         f"match on {enum_q} in {body.defq} (line {sw.term.get('line')}) has a wildcard/default arm covering {missing}: {detail}",
                         sites=[f"{body.file}:{sw.term.get('line')}"], site_key=f"{body.defq}:wildcard")
                ok_all = False
        if ok_all:
            self.add(oid, "DISPATCH", True, detail or f"matches on {enum_q} in {body.defq} are exhaustive without wildcard",
                     sites=[f"{body.file}:{sw.term.get('line')}" for (_, sw, _) in sws], site_key=f"{body.defq}")
        return ok_all

    def match_arms(self, body, enum_q):
        """arm code per variant for the matches on enum_q in body: variant -> set of blocks
        reachable after taking that variant's edge and before the point common to all variants
        (join / loop continuation). Or-patterns give the same arm to several variants."""
        from collections import defaultdict
        self._hint = body.crate
        variants = self.variants(enum_q)
        arms = defaultdict(set)
        for (bb, sw, _) in self.enum_switches(body, enum_q):
            R = {}
            for i, v in enumerate(variants):
                ts = [self._edge_target(body, (bb, lab)) for lab in sw.edge_for_value(i)]
                R[v] = body.reach([t for t in ts if t is not None], cut_blocks=[bb])
            common = set.intersection(*R.values()) if len(R) > 1 else set()
            for v in variants:
                arms[v] |= (R[v] - common)
        return arms

    def field_ops(self, body, blocks, adt_q, depth=0):
        """calls in `blocks` whose receiver (argument 0) originates from a field of adt_q ->
        set of (field, method name)"""
        orig = Origins(body, depth)
        out = set()
        pref = adt_q + "."
        for c in body.calls:
            if c.bb not in blocks or not c.args:
                continue
            at = orig.atoms(c.args[0])
            for a in at:
                if a[0] == "field" and isinstance(a[1], str) and a[1].startswith(pref):
                    out.add((a[1][len(pref):], c.name))
        return out

    def variant_blocks(self, body, enum_q, variant, switches=None):
        """blocks reachable only through the arm of `variant` (dominated by that edge) for the
        first-level switches on enum_q: returns the set of blocks reachable from entry only
        via (switch, variant) edges"""
        self._hint = body.crate
        idx = self.variant_index(enum_q, variant)
        sws = switches if switches is not None else self.enum_switches(body, enum_q)
        edges = []
        for (bb, sw, _) in sws:
            for lab in sw.edge_for_value(idx):
                edges.append((bb, lab))
        without = body.reach([0], cut_edges=set(edges))
        return body.live - without, edges

    # ---- counting / misc ------------------------------------------------------------------
    INT_WIDTH = {"u8": 1, "i8": 1, "u16": 2, "i16": 2, "u32": 4, "i32": 4, "u64": 8, "i64": 8, "usize": 8, "isize": 8, "u128": 16, "i128": 16}

    def narrowing_casts(self, body, live_only=True):
        """IntToInt casts whose target integer type is narrower than the source (value-truncating `as`).
        Returns [(bb, stmt, src_ty, dst_ty)]; casts whose source type cannot be read off a plain local are skipped."""
        out = []
        for bb, j, s in body.stmts():
            if live_only and bb not in body.live:
                continue
            if s.get("k") != "assign" or s["rv"].get("k") != "cast" or s["rv"].get("ck") != "IntToInt":
                continue
            op = s["rv"]["op"]
            if "l" not in op or op.get("p"):
                continue
            src = body.raw["locals"][op["l"]]["t"]
            dst = s["rv"].get("t")
            if src in self.INT_WIDTH and dst in self.INT_WIDTH and self.INT_WIDTH[dst] < self.INT_WIDTH[src]:
                out.append((bb, s, src, dst))
        return out

    def release_points(self, body, call, payload_type_prefix):
        """blocks at which the value obtained from `call` (e.g. a lock guard) is released: `drop` terminators (and calls
        to mem::drop) on a local that holds the payload (type starts with payload_type_prefix) and has not been moved
        out wholesale before. Returns (holders, [(bb, local)])"""
        derived = self._derived(body, call, ())
        holders = [l for l in derived if l < len(body.locals) and str(body.locals[l].get("t", "")).startswith(payload_type_prefix)]
        moved = {}
        for bb, j, s in body.stmts():
            if s["k"] == "assign" and s["rv"]["k"] == "use" and s["rv"]["op"].get("k") == "move" and not s["rv"]["op"].get("p"):
                l = op_local(s["rv"]["op"])
                if l in holders:
                    moved.setdefault(l, []).append(bb)
        for c in body.calls:
            for a in c.args:
                if a.get("k") == "move" and not a.get("p") and op_local(a) in holders:
                    moved.setdefault(op_local(a), []).append(c.bb)
        rel = []
        for i in sorted(body.live):
            t = body.blocks[i]["t"]
            if t["k"] == "drop" and t.get("pl") and not t["pl"].get("p") and t["pl"]["l"] in holders:
                l = t["pl"]["l"]
                # a drop after a whole move on every path is a no-op (drop elaboration removes it)
                if moved.get(l) and body.path([0], [i], cut_blocks=moved[l]) is None:
                    continue
                rel.append((i, l))
        for c in body.calls:
            if c.bb in body.live and c.name in ("drop", "forget") and any(op_local(a) in holders for a in c.args):
                rel.append((c.bb, op_local(c.args[0])))
        return holders, rel

    def held_across(self, oid, call, critical, payload_type_prefix, detail=""):
        """PAIR (typestate): the guard returned by `call` is still alive at every `critical` call: no release point of the
        guard lies on a path from the acquisition to a critical call"""
        body = call.body
        holders, rel = self.release_points(body, call, payload_type_prefix)
        if not holders:
            return self.add(oid, "PAIR", False, f"no local of type {payload_type_prefix}.. receives the result of {call.path} in {body.defq}: {detail}", site_key=f"{body.defq}:no-holder")
        early = []
        for (bb, l) in rel:
            t = body.blocks[bb]["t"].get("t")
            starts = [t] if t is not None else body.succs(bb)
            for c in critical:
                if body.path(starts, [c.bb]) is not None:
                    early.append(f"{body.local_name(l) or '_%d' % l} released at line {body.blocks[bb]['t'].get('line')} before {c.name} ({c.where()})")
        return self.add(oid, "PAIR", not early, detail + ("; " + "; ".join(sorted(set(early))) if early else ""),
                        sites=[f"{body.defq} holder {body.local_name(h) or '_%d' % h}" for h in holders], site_key=f"{body.defq}:{call.path}:held")

    def returned_locals(self, body):
        """ids of the locals whose value is copied / moved / wrapped (Ok(..), Some(..), tuple) into the return place"""
        seen, work = set(), [0]
        while work:
            l = work.pop()
            if l in seen:
                continue
            seen.add(l)
            for d in body.defs.get(l, []):
                if d[0] != "assign" or d[3].get("p"):
                    continue
                for x in rvalue_locals(d[4]):
                    work.append(x)
        return seen

    def resolved_atoms(self, unit, body, op, depth=1):
        """origin atoms of an operand of a closure / async-block body, with captured variables followed into the
        bodies of the same unit that define them (by the captured variable's current name)"""
        at = set(Origins(body, depth).atoms(op))
        ups = {a[1] for a in at if a[0] == "upvar"}
        for name in ups:
            for pb in unit.bodies:
                if pb is body:
                    continue
                for l in pb.locals_named(name):
                    at |= set(Origins(pb, depth).atoms({"k": "copy", "l": l}))
        return at

    def pspec(self, unit, k):
        """origin specs naming the k-th parameter (1-based, `self` = 1) of a function, valid in the function body and in
        its async-block / closure bodies; the parameter's *current* name is read from the facts, so a rename does not
        change the rule"""
        r = unit.root
        if not (1 <= k <= r.argc):
            raise AnchorMissing(f"{unit.q} has no parameter {k}")
        nm = r.local_name(k)
        out = [f"param:{k}"]
        if nm:
            out += [f"upvar:{nm}", f"local:{nm}"]
        return out

    def same_local(self, body, a, b, depth=0):
        """do operands a and b denote (a reference to / a move of / an element taken from) the same named local?"""
        o = Origins(body, depth)
        la = {v for k, v in o.atoms(a) if k == "local"}
        lb = {v for k, v in o.atoms(b) if k == "local"}
        return bool(la & lb)

    def expect_sites(self, oid, sites, exactly=None, at_least=None, at_most=None, what="site", detail=""):
        n = len(sites)
        ok = True
        if exactly is not None and n != exactly:
            ok = False
        if at_least is not None and n < at_least:
            ok = False
        if at_most is not None and n > at_most:
            ok = False
        return self.add(oid, "COUNT", ok,
                        f"{what}: found {n}, expected " + (f"exactly {exactly}" if exactly is not None else f">= {at_least}" if at_least is not None else f"<= {at_most}") + (f" — {detail}" if detail else ""),
                        sites=[(s.where() if hasattr(s, "where") else str(s)) for s in sites],
                        site_key="count")

    def arg_origin(self, oid, call, idx, spec, depth=1, detail="", all_defs=False):
        """PROV: argument idx of call has an origin matching spec"""
        orig = Origins(call.body, depth)
        if idx >= len(call.args):
            return self.add(oid, "PROV", False, f"{call.path} has no argument {idx}", site_key=f"{call.body.defq}:{call.path}:{idx}")
        at = orig.atoms(call.args[idx])
        ok = atom_match(at, spec)
        return self.add(oid, "PROV", ok, detail or f"argument {idx} of {call.path} originates from {spec}",
                        sites=[f"{call.body.defq} {call.where()}"],
                        witness=None if ok else {"atoms": sorted(map(str, at))[:40]},
                        site_key=f"{call.body.defq}:{call.path}:{idx}")

    def const_arg(self, oid, call, idx, value, detail=""):
        """CONST: argument idx of call is the constant `value`"""
        orig = Origins(call.body, 0)
        ds = orig.direct_def(call.args[idx]) if idx < len(call.args) else []
        vals = [d[1].get("v") for d in ds if d[0] == "const"]
        ok = bool(vals) and all(v == value for v in vals) and len(vals) == len(ds)
        return self.add(oid, "CONST", ok, detail or f"argument {idx} of {call.path} is the constant {value}",
                        sites=[f"{call.body.defq} {call.where()}"], site_key=f"{call.body.defq}:{call.path}:{idx}")


def rvalue_locals(rv):
    """locals read by an rvalue"""
    out = []
    for key in ("op", "a", "b"):
        if key in rv and isinstance(rv[key], dict):
            l = op_local(rv[key])
            if l is not None:
                out.append(l)
    if "pl" in rv:
        out.append(rv["pl"]["l"])
    for o in rv.get("ops", []):
        l = op_local(o)
        if l is not None:
            out.append(l)
    return out


def _type_is(tstr, table):
    """does the type string name the table type (exact path or path suffix ::Name)?"""
    base = tstr.split("<", 1)[0]
    return base == table or base.endswith("::" + table) or tstr == table


class FnRef:
    """a fn item used as a value (e.g. passed to map/for_each) — counts as a call site for WMC"""

    def __init__(self, body, ref):
        self.body = body
        self.path = ref["path"]
        self.res = ref.get("res")
        self.bb = ref["bb"]
        self.line = ref.get("line")
        self.targs = ref.get("targs", [])
        self.self_ty = ref.get("self")

    def where(self):
        return f"{self.body.file}:{self.line} (fn reference)"

    def is_path(self, *specs):
        return glob_any(self.path, specs) or (self.res and glob_any(self.res, specs))


def fn_refs(body):
    """fn items used as values in a body (operands of statements and call arguments)"""
    cached = getattr(body, "_fnrefs", None)
    if cached is not None:
        return cached
    out = []

    def scan(op, bb, line):
        if isinstance(op, dict) and op.get("k") == "fn":
            fn = op["fn"]
            out.append({"path": fn["path"], "res": fn.get("res"), "bb": bb, "line": line,
                        "targs": fn.get("targs", []), "self": fn.get("self")})

    for bb, j, s in body.stmts():
        if bb not in body.live or s["k"] != "assign":
            continue
        rv = s["rv"]
        for key in ("op", "a", "b"):
            if key in rv and isinstance(rv[key], dict):
                scan(rv[key], bb, s.get("line"))
        for o in rv.get("ops", []):
            scan(o, bb, s.get("line"))
    for c in body.calls:
        if c.bb not in body.live:
            continue
        for a in c.args:
            scan(a, c.bb, c.line)
    body._fnrefs = out
    return out
