#!/bin/bash
# setup_cmd: build the facts extractor and warm the dependency cache (offline).
set -e
HERE="$(cd "$(dirname "${BASH_SOURCE[0]}")/.." && pwd)"
cd "$HERE"
export CARGO_NET_OFFLINE=true
PY=/usr/bin/python3; [ -x "$PY" ] || PY=python3
(cd engine/driver && cargo +nightly build --release --offline)
# first extraction compiles all external dependencies into .cache/target (slow when cold)
"$PY" engine/facts.py default
# the snapshot file format (C39): fuel-core-chain-config with its parquet feature
"$PY" engine/facts.py parquet
echo "setup ok"
